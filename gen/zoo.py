#!/usr/bin/env python3
"""Type-zoo generator: emits Rust source with #[derive(Savefile)] definitions,
`Model` impls (the harness' own statement of the wire shape, derived from the
*definition*, never from savefile's schema), evolution families, and registries.

usage: zoo.py --seed S --types N --families F --out FILE [--module zoo]
The output is a deterministic function of the arguments.
"""
import argparse, random, json, sys

MAXV = "u32::MAX"

# ---------------------------------------------------------------------------
# type expressions

class T:
    def __init__(self, rust, hashable=False, copy=False, default=None, tags=(), intro=True, fixed=None, ident=False, depth=0, displayable=False):
        self.rust = rust          # Rust spelling; may contain {famJ} placeholders
        self.hashable = hashable  # Eq + Hash + Ord: usable as key / set element
        self.copy = copy
        self.default = default    # Rust expr of the Val of Default::default(), or None when unknown
        self.tags = set(tags)
        self.intro = intro        # implements Introspect
        self.fixed = fixed        # (size, align) for plain fixed-size primitives
        self.ident = ident        # single identifier (usable in savefile_versions_as)
        self.depth = depth
        self.displayable = displayable

def prim(name, default, size, hashable=True, disp=True):
    return T(name, hashable=hashable, copy=True, default=default, tags={"prim:" + name}, fixed=(size, size), ident=True, displayable=disp)

PRIMS = {
    "bool": prim("bool", "Val::Bool(false)", 1),
    "u8": prim("u8", "Val::U(0)", 1), "u16": prim("u16", "Val::U(0)", 2), "u32": prim("u32", "Val::U(0)", 4),
    "u64": prim("u64", "Val::U(0)", 8), "u128": prim("u128", "Val::U(0)", 16),
    "i8": prim("i8", "Val::I(0)", 1), "i16": prim("i16", "Val::I(0)", 2), "i32": prim("i32", "Val::I(0)", 4),
    "i64": prim("i64", "Val::I(0)", 8), "i128": prim("i128", "Val::I(0)", 16),
    "usize": prim("usize", "Val::U(0)", 8), "isize": prim("isize", "Val::I(0)", 8),
    "f32": prim("f32", "Val::F32(0)", 4, hashable=False), "f64": prim("f64", "Val::F64(0)", 8, hashable=False),
    "char": prim("char", "Val::Char(0)", 4),
    "String": T("String", hashable=True, default="Val::Str(String::new())", tags={"prim:String"}, ident=True, displayable=True),
}
# u128/i128 alignment is 16 on current x86-64 rustc
PRIMS["u128"].fixed = (16, 16)
PRIMS["i128"].fixed = (16, 16)
KEY_PRIMS = ["u8", "u16", "u32", "u64", "i8", "i32", "i64", "char", "bool", "String", "usize"]
SMALL_PRIMS = ["bool", "u8", "u16", "u32", "u64", "i8", "i16", "i32", "i64", "f32", "f64", "char"]

SPECIALS = [
    T("std::time::Duration", hashable=True, copy=True, default="Val::U(0)", tags={"special:Duration"}),
    T("std::time::SystemTime", tags={"special:SystemTime"}),
    T("std::net::IpAddr", hashable=True, copy=True, tags={"special:IpAddr"}),
    T("std::net::SocketAddr", hashable=True, copy=True, tags={"special:SocketAddr"}),
    T("std::path::PathBuf", hashable=True, default="Val::Str(String::new())", tags={"special:PathBuf"}),
    T("arrayvec::ArrayString<8>", hashable=True, copy=True, default="Val::Str(String::new())", tags={"special:ArrayString"}),
    T("bit_vec::BitVec", tags={"special:BitVec"}, default="Val::Bits(vec![])"),
    T("bit_vec08::BitVec", tags={"special:BitVec08"}, default="Val::Bits(vec![])"),
    T("bit_set::BitSet", tags={"special:BitSet"}, default="Val::Bits(vec![])"),
    T("savefile::Canary1", copy=True, default="Val::Unit", tags={"special:Canary1"}),
    T("chrono::DateTime<chrono::Utc>", hashable=True, copy=True, tags={"special:DateTime"}),
    T("std::sync::atomic::AtomicU32", default="Val::U(0)", tags={"special:Atomic"}),
    T("std::sync::atomic::AtomicI64", default="Val::I(0)", tags={"special:Atomic"}),
    T("std::sync::atomic::AtomicBool", default="Val::Bool(false)", tags={"special:Atomic"}),
    T("std::sync::Arc<str>", hashable=True, tags={"special:ArcStr"}),
    T("()", hashable=True, copy=True, default="Val::Unit", tags={"special:unit"}),
    T("std::io::Error", tags={"special:IoError"}, intro=False),
]

class Gen:
    def __init__(self, seed, module):
        self.rng = random.Random(seed)
        self.seed = seed
        self.module = module
        self.items = []      # generated standalone types: dicts
        self.families = []   # family dicts
        self.pool = []       # T's of generated types usable as field types
        self.fam_pool = []   # (family index, nversions)
        self.fn_counter = 0
        self.helpers = []    # helper Rust items (default fns, ctor structs)
        self.abi_ctx = False # while generating an abi-writable family: nest only abi-writable families

    # -- random type expressions -------------------------------------------------
    def rand_prim(self, names=None):
        names = names or list(PRIMS.keys())
        return PRIMS[self.rng.choice(names)]

    def rand_key(self):
        return PRIMS[self.rng.choice(KEY_PRIMS)]

    def rand_type(self, depth=0, allow_pool=True, allow_fam=False, need_intro=False):
        r = self.rng
        if depth >= 3:
            return self.rand_prim()
        roll = r.random()
        if roll < 0.40:
            return self.rand_prim()
        if roll < 0.48:
            t = r.choice(SPECIALS)
            if need_intro and not t.intro:
                return self.rand_prim()
            return t
        if roll < 0.58 and allow_pool and self.pool:
            return r.choice(self.pool)
        if roll < 0.62 and allow_fam and [x for x in self.fam_pool if (not self.abi_ctx or self.families[x[0]]["abi"])]:
            j, n = r.choice([x for x in self.fam_pool if (not self.abi_ctx or self.families[x[0]]["abi"])])
            return T("{fam%d}" % j, tags={"nested-family"}, depth=1)
        sub = lambda **kw: self.rand_type(depth + 1, allow_pool, allow_fam, need_intro)
        k = r.randrange(18)
        if k == 0:
            a = sub(); return T("Option<%s>" % a.rust, hashable=a.hashable, copy=a.copy, default="Val::None", tags=a.tags | {"Option"}, intro=a.intro)
        if k == 1:
            a = sub(); return T("Vec<%s>" % a.rust, hashable=a.hashable, default="Val::Seq(vec![])", tags=a.tags | {"Vec"}, intro=a.intro)
        if k == 2:
            a = sub(); return T("Box<%s>" % a.rust, hashable=a.hashable, default=a.default, tags=a.tags | {"Box"}, intro=a.intro)
        if k == 3:
            a = sub(); n = r.choice([0, 1, 2, 3, 4])
            d = ("Val::Seq(vec![%s])" % ", ".join([a.default] * n)) if a.default else None
            return T("[%s; %d]" % (a.rust, n), hashable=a.hashable, copy=a.copy, default=d, tags=a.tags | {"Array"}, intro=a.intro)
        if k == 4:
            a = sub(); b = sub()
            d = "Val::Tuple(vec![%s, %s])" % (a.default, b.default) if a.default and b.default else None
            return T("(%s, %s)" % (a.rust, b.rust), hashable=a.hashable and b.hashable, copy=a.copy and b.copy, default=d, tags=a.tags | b.tags | {"Tuple2"}, intro=a.intro and b.intro)
        if k == 5:
            a = sub(); b = sub(); c = sub()
            d = "Val::Tuple(vec![%s, %s, %s])" % (a.default, b.default, c.default) if a.default and b.default and c.default else None
            return T("(%s, %s, %s)" % (a.rust, b.rust, c.rust), hashable=a.hashable and b.hashable and c.hashable, copy=a.copy and b.copy and c.copy, default=d, tags=a.tags | b.tags | c.tags | {"Tuple3"}, intro=a.intro and b.intro and c.intro)
        if k == 6:
            kk = self.rand_key(); v = sub()
            return T("std::collections::HashMap<%s, %s>" % (kk.rust, v.rust), default="Val::Map(vec![])", tags=v.tags | {"HashMap"}, intro=v.intro)
        if k == 7:
            kk = self.rand_key(); v = sub()
            return T("std::collections::BTreeMap<%s, %s>" % (kk.rust, v.rust), default="Val::Map(vec![])", tags=v.tags | {"BTreeMap"}, intro=v.intro)
        if k == 8:
            a = sub(); b = sub()
            return T("Result<%s, %s>" % (a.rust, b.rust), tags=a.tags | b.tags | {"Result"}, intro=a.intro and b.intro)
        if k == 9:
            a = sub(); return T("std::collections::VecDeque<%s>" % a.rust, default="Val::Seq(vec![])", tags=a.tags | {"VecDeque"}, intro=a.intro)
        if k == 10:
            kk = self.rand_key(); return T("std::collections::HashSet<%s>" % kk.rust, default="Val::Seq(vec![])", tags={"HashSet"})
        if k == 11:
            kk = self.rand_key(); return T("std::collections::BTreeSet<%s>" % kk.rust, hashable=True, default="Val::Seq(vec![])", tags={"BTreeSet"})
        if k == 12:
            a = sub(); w = r.choice(["std::sync::Arc", "std::rc::Rc"]); return T("%s<%s>" % (w, a.rust), hashable=a.hashable, default=a.default, tags=a.tags | {"Rc/Arc"}, intro=a.intro)
        if k == 13:
            a = self.rand_prim(SMALL_PRIMS)
            if need_intro:
                return a
            return T("std::cell::Cell<%s>" % a.rust, default=a.default, tags={"Cell"}, intro=False)
        if k == 14:
            a = sub(); w = r.choice(["std::cell::RefCell", "std::sync::Mutex", "parking_lot::Mutex", "parking_lot::RwLock"])
            return T("%s<%s>" % (w, a.rust), default=a.default, tags=a.tags | {"lock/RefCell"}, intro=a.intro)
        if k == 15:
            a = sub(); return T("arrayvec::ArrayVec<%s, 4>" % a.rust, default="Val::Seq(vec![])", tags=a.tags | {"ArrayVec"}, intro=a.intro)
        if k == 16:
            a = sub(); return T("smallvec::SmallVec<[%s; 2]>" % a.rust, default="Val::Seq(vec![])", tags=a.tags | {"SmallVec"}, intro=a.intro)
        a = sub(); return T("Box<[%s]>" % a.rust, hashable=a.hashable, default="Val::Seq(vec![])", tags=a.tags | {"BoxSlice"}, intro=a.intro)

    # -- emitting a struct / enum definition + Model impl --------------------------
    def field_attrs(self, f):
        a = []
        if f.get("ignore"):
            a.append("#[savefile_ignore]")
        if f.get("intro_ignore"):
            a.append("#[savefile_introspect_ignore]")
        if f.get("intro_key"):
            a.append("#[savefile_introspect_key]")
        for (afrom, ato, aty, conv) in f.get("alts", []):
            fn = CONV_FN.get(conv)
            if fn:
                a.append('#[savefile_versions_as = "%d..%d:%s:%s"]' % (afrom, ato, fn, aty))
            else:
                a.append('#[savefile_versions_as = "%d..%d:%s"]' % (afrom, ato, aty))
        fr, to = f.get("from", 0), f.get("to")
        if fr != 0 or to is not None:
            a.append('#[savefile_versions = "%s..%s"]' % (fr if fr else "", "" if to is None else to))
        d = f.get("dflt")
        if d and d[0] == "val":
            a.append('#[savefile_default_val = "%s"]' % d[2])
        if d and d[0] == "fn":
            a.append('#[savefile_default_fn = "%s"]' % d[2])
        return a

    def field_rust_type(self, f, famver):
        ty = self.resolve(f["ty"], famver)
        k = f.get("kind", "normal")
        if k == "removed":
            return "savefile::Removed<%s>" % ty
        if k == "abiremoved":
            if f.get("ctor"):
                return "savefile::AbiRemoved<%s, %s>" % (ty, f["ctor"][0])
            return "savefile::AbiRemoved<%s>" % ty
        return ty

    def resolve(self, rust, famver):
        # replace {famJ} placeholders by the definition of family J at the given version
        out = rust
        for j, fam in enumerate(self.families):
            ph = "{fam%d}" % j
            if ph in out:
                v = min(famver if famver is not None else 0, len(fam["defs"]) - 1)
                out = out.replace(ph, "super::f%d_v%d::F%d" % (j, v, j))
        return out

    def field_shape_expr(self, f, famver):
        ty = self.resolve(f["ty"], famver)
        k = f.get("kind", "normal")
        if f.get("ignore"):
            kind = "FieldKind::Ignored"
        elif k == "removed":
            kind = "FieldKind::Removed"
        elif k == "abiremoved":
            ctorval = f["ctor"][1] if f.get("ctor") else f["default_val"]
            kind = "FieldKind::AbiRemoved(%s)" % ctorval
        else:
            kind = "FieldKind::Normal"
        d = f.get("dflt")
        if d:
            default = d[1]
        elif f.get("ignore"):
            default = f["default_val"]
        else:
            default = "Val::Unit"
        alts = []
        for (afrom, ato, aty, conv) in f.get("alts", []):
            alts.append("Alt { from: %d, to: %d, shape: <%s as Model>::shape(), conv: Conv::%s }" % (afrom, ato, aty, conv))
        to = f.get("to")
        return ('FieldShape { name: "%s".into(), shape: <%s as Model>::shape(), from: %d, to: %s, kind: %s, default: %s, alts: vec![%s] }'
                % (f["name"], ty, f.get("from", 0), MAXV if to is None else str(to), kind, default, ", ".join(alts)))

    def emit_struct(self, name, fields, repr_attr, style, famver=None, generics=None):
        """fields: list of dicts(name, ty (rust str), ...). style: named|tuple|unit. Returns (def_text, model_text)."""
        gdecl = "<%s>" % ", ".join(generics) if generics else ""
        lines = []
        if repr_attr:
            lines.append("#[repr(%s)]" % repr_attr)
        lines.append("#[derive(Savefile)]")
        if style == "unit":
            lines.append("pub struct %s;" % name)
        elif style == "tuple":
            parts = []
            for f in fields:
                attrs = " ".join(self.field_attrs(f))
                parts.append("%s pub %s" % (attrs, self.field_rust_type(f, famver)))
            lines.append("pub struct %s%s(%s);" % (name, gdecl, ", ".join(parts)))
        else:
            lines.append("pub struct %s%s {" % (name, gdecl))
            for f in fields:
                for a in self.field_attrs(f):
                    lines.append("    " + a)
                lines.append("    pub %s: %s," % (f["name"], self.field_rust_type(f, famver)))
            lines.append("}")
        def_text = "\n".join(lines)

        gimpl = "<%s>" % ", ".join(g + ": Model" for g in generics) if generics else ""
        acc = lambda f, i: (str(i) if style == "tuple" else f["name"])
        mem = [(i, f) for i, f in enumerate(fields) if f.get("kind", "normal") == "normal"]
        m = []
        m.append("impl%s Model for %s%s {" % (gimpl, name, gdecl))
        m.append("    fn shape() -> Shape {")
        m.append('        Shape::Struct("%s".into(), vec![' % name)
        for f in fields:
            m.append("            %s," % self.field_shape_expr(f, famver))
        m.append("        ])")
        m.append("    }")
        m.append("    fn to_val(&self) -> Val {")
        m.append("        Val::Rec(vec![%s])" % ", ".join('("%s".to_string(), self.%s.to_val())' % (f["name"], acc(f, i)) for i, f in mem))
        m.append("    }")
        m.append("    fn from_val(v: &Val) -> Self {")
        m.append("        let Val::Rec(f) = v else { return mismatch(\"%s\", v) };" % name)
        m.append("        let _ = f;")
        inits = []
        for i, f in enumerate(fields):
            k = f.get("kind", "normal")
            if k == "removed":
                e = "savefile::Removed::new()"
            elif k == "abiremoved":
                e = "savefile::AbiRemoved::new()"
            else:
                e = '<%s as Model>::from_val(recget(f, "%s"))' % (self.resolve(f["ty"], famver), f["name"])
            inits.append(e if style == "tuple" else "%s: %s" % (f["name"], e))
        if style == "unit":
            m.append("        %s" % name)
        elif style == "tuple":
            m.append("        %s(%s)" % (name, ", ".join(inits)))
        else:
            m.append("        %s { %s }" % (name, ", ".join(inits)))
        m.append("    }")
        m.append("    fn claim(&self, limit: u128) -> u128 {")
        m.append("        let mut t: u128 = 0; let _ = limit;")
        for i, f in mem:
            m.append("        t = t.saturating_add(self.%s.claim(limit));" % acc(f, i))
        m.append("        t")
        m.append("    }")
        m.append("    fn valid_bits(&self) -> bool {")
        m.append("        true" + "".join(" && self.%s.valid_bits()" % acc(f, i) for i, f in mem))
        m.append("    }")
        m.append("}")
        return def_text, "\n".join(m)

    def emit_enum(self, name, variants, repr_attr, famver=None, generics=None):
        """variants: list of dict(name, style(unit|tuple|named), fields, from, discr(optional int))"""
        gdecl = "<%s>" % ", ".join(generics) if generics else ""
        gimpl = "<%s>" % ", ".join(g + ": Model" for g in generics) if generics else ""
        lines = []
        if repr_attr:
            lines.append("#[repr(%s)]" % repr_attr)
        lines.append("#[derive(Savefile)]")
        lines.append("pub enum %s%s {" % (name, gdecl))
        for v in variants:
            attrs = ""
            if v.get("from", 0):
                attrs = '#[savefile_versions = "%d.."] ' % v["from"]
            if v["style"] == "unit":
                d = " = %d" % v["discr"] if v.get("discr") is not None else ""
                lines.append("    %s%s%s," % (attrs, v["name"], d))
            elif v["style"] == "tuple":
                parts = ["%s %s" % (" ".join(self.field_attrs(f)), self.field_rust_type(f, famver)) for f in v["fields"]]
                lines.append("    %s%s(%s)," % (attrs, v["name"], ", ".join(parts)))
            else:
                lines.append("    %s%s {" % (attrs, v["name"]))
                for f in v["fields"]:
                    for a in self.field_attrs(f):
                        lines.append("        " + a)
                    lines.append("        %s: %s," % (f["name"], self.field_rust_type(f, famver)))
                lines.append("    },")
        lines.append("}")
        def_text = "\n".join(lines)
        width = enum_width(repr_attr, len(variants))
        m = []
        m.append("impl%s Model for %s%s {" % (gimpl, name, gdecl))
        m.append("    fn shape() -> Shape {")
        m.append('        Shape::Enum("%s".into(), %d, vec![' % (name, width))
        for vi, v in enumerate(variants):
            m.append('            VariantShape { name: "%s".into(), from: %d, discr: %d, fields: vec![%s] },'
                     % (v["name"], v.get("from", 0), v["discr"] if v.get("discr") is not None else vi, ", ".join(self.field_shape_expr(f, famver) for f in v["fields"])))
        m.append("        ])")
        m.append("    }")
        m.append("    fn to_val(&self) -> Val {")
        m.append("        match self {")
        for v in variants:
            mem = [(i, f) for i, f in enumerate(v["fields"]) if f.get("kind", "normal") == "normal"]
            if v["style"] == "unit":
                pat = "%s::%s" % (name, v["name"])
            elif v["style"] == "tuple":
                pat = "%s::%s(%s)" % (name, v["name"], ", ".join(("x%d" % i) if f.get("kind", "normal") == "normal" else "_" for i, f in enumerate(v["fields"])))
            else:
                pat = "%s::%s { %s }" % (name, v["name"], ", ".join(("%s: x%d" % (f["name"], i)) if f.get("kind", "normal") == "normal" else ("%s: _" % f["name"]) for i, f in enumerate(v["fields"])))
            body = ", ".join('("%s".to_string(), x%d.to_val())' % (f["name"], i) for i, f in mem)
            m.append('            %s => Val::Var("%s".to_string(), vec![%s]),' % (pat, v["name"], body))
        m.append("        }")
        m.append("    }")
        m.append("    fn from_val(v: &Val) -> Self {")
        m.append("        let Val::Var(n, f) = v else { return mismatch(\"%s\", v) };" % name)
        m.append("        let _ = f;")
        m.append("        match n.as_str() {")
        for v in variants:
            inits = []
            for i, f in enumerate(v["fields"]):
                k = f.get("kind", "normal")
                if k == "removed":
                    e = "savefile::Removed::new()"
                elif k == "abiremoved":
                    e = "savefile::AbiRemoved::new()"
                else:
                    e = '<%s as Model>::from_val(recget(f, "%s"))' % (self.resolve(f["ty"], famver), f["name"])
                inits.append(e if v["style"] == "tuple" else "%s: %s" % (f["name"], e))
            if v["style"] == "unit":
                ctor = "%s::%s" % (name, v["name"])
            elif v["style"] == "tuple":
                ctor = "%s::%s(%s)" % (name, v["name"], ", ".join(inits))
            else:
                ctor = "%s::%s { %s }" % (name, v["name"], ", ".join(inits))
            m.append('            "%s" => %s,' % (v["name"], ctor))
        m.append('            _ => mismatch("%s variant", v),' % name)
        m.append("        }")
        m.append("    }")
        m.append("    fn claim(&self, limit: u128) -> u128 {")
        m.append("        let _ = limit;")
        m.append("        match self {")
        for v in variants:
            mem = [(i, f) for i, f in enumerate(v["fields"]) if f.get("kind", "normal") == "normal"]
            if v["style"] == "unit":
                pat = "%s::%s" % (name, v["name"])
            elif v["style"] == "tuple":
                pat = "%s::%s(%s)" % (name, v["name"], ", ".join(("x%d" % i) if f.get("kind", "normal") == "normal" else "_" for i, f in enumerate(v["fields"])))
            else:
                pat = "%s::%s { %s }" % (name, v["name"], ", ".join(("%s: x%d" % (f["name"], i)) if f.get("kind", "normal") == "normal" else ("%s: _" % f["name"]) for i, f in enumerate(v["fields"])))
            body = " ".join("t = t.saturating_add(x%d.claim(limit));" % i for i, f in mem)
            m.append("            %s => { let mut t: u128 = 0; %s t }" % (pat, body))
        m.append("        }")
        m.append("    }")
        m.append("    fn valid_bits(&self) -> bool {")
        tagty = enum_tag_type(repr_attr)
        if tagty and variants:
            allowed = ", ".join("%d" % (v["discr"] if v.get("discr") is not None else vi) for vi, v in enumerate(variants))
            m.append("        if std::mem::size_of::<Self>() >= std::mem::size_of::<%s>() {" % tagty)
            m.append("            let tag = unsafe { std::ptr::read_volatile(self as *const Self as *const %s) } as i128;" % tagty)
            m.append("            if ![%s].contains(&tag) { return false; }" % ", ".join("%si128" % x.strip() for x in allowed.split(",")))
            m.append("        }")
        m.append("        match self {")
        for v in variants:
            mem = [(i, f) for i, f in enumerate(v["fields"]) if f.get("kind", "normal") == "normal"]
            if v["style"] == "unit":
                pat = "%s::%s" % (name, v["name"])
            elif v["style"] == "tuple":
                pat = "%s::%s(%s)" % (name, v["name"], ", ".join(("x%d" % i) if f.get("kind", "normal") == "normal" else "_" for i, f in enumerate(v["fields"])))
            else:
                pat = "%s::%s { %s }" % (name, v["name"], ", ".join(("%s: x%d" % (f["name"], i)) if f.get("kind", "normal") == "normal" else ("%s: _" % f["name"]) for i, f in enumerate(v["fields"])))
            m.append("            %s => true%s," % (pat, "".join(" && x%d.valid_bits()" % i for i, f in mem)))
        m.append("        }")
        m.append("    }")
        m.append("}")
        return def_text, "\n".join(m)

    # -- standalone types -------------------------------------------------------------
    def add_item(self, modname, tyname, def_text, model_text, tags, version=0, instances=None, pool_t=None):
        self.items.append(dict(mod=modname, ty=tyname, deftext=def_text, model=model_text, tags=sorted(tags), version=version, instances=instances))
        if pool_t is not None:
            self.pool.append(pool_t)

    def mk_fields(self, n, need_intro=False, allow_fam=False, names=None):
        fields = []
        for i in range(n):
            t = self.rand_type(0, allow_fam=allow_fam, need_intro=need_intro)
            f = dict(name=(names[i] if names else "f%d" % i), ty=t.rust, t=t)
            if not t.intro:
                f["intro_ignore"] = True
            fields.append(f)
        return fields

    def random_struct(self, idx):
        r = self.rng
        name = "T%d" % idx
        style = r.choice(["named", "named", "named", "tuple", "unit"]) if r.random() < 0.5 else "named"
        n = 0 if style == "unit" else r.choice([1, 1, 2, 2, 3, 3, 4, 5, 6, 8])
        fields = self.mk_fields(n)
        tags = {"struct", "style:" + style}
        # ignored field
        if style == "named" and fields and r.random() < 0.2:
            cand = [f for f in fields if f["t"].default]
            if cand:
                f = r.choice(cand)
                f["ignore"] = True
                f["default_val"] = f["t"].default
                tags.add("savefile_ignore")
        if style == "named" and fields and r.random() < 0.2:
            cand = [f for f in fields if f["t"].displayable and not f.get("ignore")]
            if cand:
                r.choice(cand)["intro_key"] = True
                tags.add("introspect_key")
        repr_attr = r.choice([None, None, "C"])
        if repr_attr:
            tags.add("repr(C)")
        for f in fields:
            tags |= f["t"].tags
        d, m = self.emit_struct(name, fields, repr_attr, style)
        hashable = False
        self.add_item("t%d" % idx, name, d, m, tags, pool_t=T("super::t%d::%s" % (idx, name), tags={"nested-derived"}, depth=1))

    def packed_struct(self, idx):
        """structs built from fixed-size primitives, around the packed / not packed boundary"""
        r = self.rng
        name = "T%d" % idx
        n = r.choice([1, 2, 2, 3, 3, 4, 5])
        kinds = r.choice(["same", "mixed", "desc", "arrays", "tuples", "nested"])
        tags = {"struct", "packed-candidate", "pk:" + kinds}
        fields = []
        if kinds == "same":
            p = self.rand_prim(SMALL_PRIMS)
            fields = [dict(name="f%d" % i, ty=p.rust, t=p) for i in range(n)]
        elif kinds == "mixed":
            fields = [dict(name="f%d" % i, ty=t.rust, t=t) for i, t in enumerate(self.rand_prim(SMALL_PRIMS + ["u128", "usize"]) for _ in range(n))]
        elif kinds == "desc":
            ps = sorted([self.rand_prim(SMALL_PRIMS) for _ in range(n)], key=lambda t: -t.fixed[0])
            # pad the tail with u8 so that total size is a multiple of the largest alignment (sometimes)
            fields = [dict(name="f%d" % i, ty=t.rust, t=t) for i, t in enumerate(ps)]
            if r.random() < 0.7:
                tot = sum(t.fixed[0] for t in ps)
                al = max(t.fixed[1] for t in ps)
                k = 0
                while tot % al != 0:
                    fields.append(dict(name="pad%d" % k, ty="u8", t=PRIMS["u8"]))
                    tot += 1
                    k += 1
        elif kinds == "arrays":
            for i in range(n):
                p = self.rand_prim(SMALL_PRIMS)
                c = r.choice([0, 1, 2, 3, 4])
                fields.append(dict(name="f%d" % i, ty="[%s; %d]" % (p.rust, c), t=T("[%s;%d]" % (p.rust, c), tags={"Array"})))
        elif kinds == "tuples":
            for i in range(n):
                p = self.rand_prim(SMALL_PRIMS)
                q = p if r.random() < 0.6 else self.rand_prim(SMALL_PRIMS)
                fields.append(dict(name="f%d" % i, ty="(%s, %s)" % (p.rust, q.rust), t=T("(..)", tags={"Tuple2"})))
        else:
            cands = [it for it in self.items if "packed-candidate" in it["tags"] and not it.get("instances")]
            for i in range(n):
                if cands and r.random() < 0.7:
                    it = r.choice(cands)
                    fields.append(dict(name="f%d" % i, ty="super::%s::%s" % (it["mod"], it["ty"]), t=T("x", tags={"nested-derived"})))
                else:
                    p = self.rand_prim(SMALL_PRIMS)
                    fields.append(dict(name="f%d" % i, ty=p.rust, t=p))
        repr_attr = r.choice(["C", "C", "C", None])
        style = r.choice(["named", "named", "tuple"])
        if repr_attr:
            tags.add("repr(C)")
        d, m = self.emit_struct(name, fields, repr_attr, style)
        self.add_item("t%d" % idx, name, d, m, tags, pool_t=T("super::t%d::%s" % (idx, name), tags={"nested-derived", "packed-candidate"}, depth=1))

    def random_enum(self, idx):
        r = self.rng
        name = "T%d" % idx
        nv = r.choice([1, 2, 2, 3, 3, 4, 6])
        shape_kind = r.choice(["unit", "mixed", "mixed", "samesize"])
        repr_attr = r.choice([None, None, "u8", "u8", "u16", "u32", "i8", "u8, C", "C"]) if shape_kind != "unit" else r.choice([None, "u8", "u16", "u32", "i8", "i16", "i32"])
        if repr_attr == "C":
            repr_attr = None  # derive rejects? repr(C) alone on enums is accepted by get_enum_size ("C" => repr_c_seen) but keep it simple
        variants = []
        tags = {"enum", "ek:" + shape_kind, "repr:" + str(repr_attr)}
        discr_mode = None
        if shape_kind == "unit" and r.random() < 0.5:
            discr_mode = r.choice(["contig0", "shifted", "sparse"])
            tags.add("explicit-discr:" + discr_mode)
        cur = 0
        for i in range(nv):
            if shape_kind == "unit":
                v = dict(name="V%d" % i, style="unit", fields=[])
                if discr_mode == "contig0":
                    v["discr"] = i
                elif discr_mode == "shifted":
                    v["discr"] = i + 5
                elif discr_mode == "sparse":
                    cur += r.choice([1, 2, 7])
                    v["discr"] = cur
            elif shape_kind == "samesize":
                p = self.rand_prim(["u8", "i8", "bool", "u16", "u32"]) if i == 0 else variants[0]["fields"][0]["t"]
                cnt = len(variants[0]["fields"]) if i else r.choice([1, 2, 3])
                st = r.choice(["tuple", "named"])
                v = dict(name="V%d" % i, style=st, fields=[dict(name=("%d" % j if st == "tuple" else "a%d" % j), ty=p.rust, t=p) for j in range(cnt)])
            else:
                st = r.choice(["unit", "tuple", "named"])
                nf = 0 if st == "unit" else r.choice([1, 1, 2, 3])
                fs = self.mk_fields(nf, need_intro=True, names=[("%d" % j if st == "tuple" else "a%d" % j) for j in range(nf)])
                v = dict(name="V%d" % i, style=st, fields=fs)
                for f in fs:
                    tags |= f["t"].tags
            variants.append(v)
        d, m = self.emit_enum(name, variants, repr_attr)
        self.add_item("t%d" % idx, name, d, m, tags, pool_t=T("super::t%d::%s" % (idx, name), tags={"nested-derived"}, depth=1))

    def generic_item(self, idx):
        r = self.rng
        name = "T%d" % idx
        tags = {"generic"}
        if r.random() < 0.6:
            fields = [dict(name="a", ty="G", t=T("G")), dict(name="b", ty=self.rand_prim(SMALL_PRIMS).rust, t=T("p"))]
            if r.random() < 0.5:
                fields.append(dict(name="c", ty="Vec<G>", t=T("Vec<G>")))
            if r.random() < 0.3:
                fields.append(dict(name="ph", ty="std::marker::PhantomData<G>", t=T("ph")))
            r.shuffle(fields)
            repr_attr = r.choice([None, "C"])
            d, m = self.emit_struct(name, fields, repr_attr, "named", generics=["G"])
            tags.add("struct")
        else:
            repr_attr = r.choice([None, "u8"])
            variants = [dict(name="A", style="unit", fields=[]), dict(name="B", style="tuple", fields=[dict(name="0", ty="G", t=T("G"))]),
                        dict(name="C", style="named", fields=[dict(name="x", ty="G", t=T("G")), dict(name="y", ty="G", t=T("G"))])]
            if repr_attr == "u8":
                variants = [dict(name="B", style="tuple", fields=[dict(name="0", ty="G", t=T("G"))]), dict(name="D", style="tuple", fields=[dict(name="0", ty="G", t=T("G"))])]
            d, m = self.emit_enum(name, variants, repr_attr, generics=["G"])
            tags.add("enum")
        insts = r.sample(["u8", "u16", "u32", "String", "(u16, u16)", "Option<u8>", "bool", "f64", "Vec<u8>"], 3)
        self.add_item("t%d" % idx, name, d, m, tags, instances=insts)

    def curated(self):
        """hand-picked definitions that must always be present"""
        c = []
        # the documented packed / not packed examples
        c.append(("cur_good", "CurGood", "#[repr(C)]\n#[derive(Savefile)]\npub struct CurGood { pub f1: u8, pub pad1: u8, pub pad2: u8, pub pad3: u8, pub f2: u32 }",
                  [("f1", "u8"), ("pad1", "u8"), ("pad2", "u8"), ("pad3", "u8"), ("f2", "u32")], {"curated", "packed-candidate", "repr(C)"}))
        c.append(("cur_bad", "CurBad", "#[repr(C)]\n#[derive(Savefile)]\npub struct CurBad { pub f1: u8, pub f2: u32 }", [("f1", "u8"), ("f2", "u32")], {"curated", "packed-candidate", "repr(C)"}))
        c.append(("cur_bad2", "CurBad2", "#[repr(C)]\n#[derive(Savefile)]\npub struct CurBad2 { pub f1: u32, pub f2: u8 }", [("f1", "u32"), ("f2", "u8")], {"curated", "packed-candidate", "repr(C)"}))
        c.append(("cur_pos", "CurPos", "#[repr(C)]\n#[derive(Savefile)]\npub struct CurPos { pub x: u32, pub y: u32 }", [("x", "u32"), ("y", "u32")], {"curated", "packed-candidate", "repr(C)"}))
        c.append(("cur_rust", "CurRust", "#[derive(Savefile)]\npub struct CurRust { pub a: u8, pub b: u32, pub c: u8, pub d: u16 }", [("a", "u8"), ("b", "u32"), ("c", "u8"), ("d", "u16")], {"curated", "packed-candidate"}))
        c.append(("cur_usz", "CurUsz", "#[repr(C)]\n#[derive(Savefile)]\npub struct CurUsz { pub a: usize, pub b: u64 }", [("a", "usize"), ("b", "u64")], {"curated", "packed-candidate", "repr(C)"}))
        c.append(("cur_bools", "CurBools", "#[repr(C)]\n#[derive(Savefile)]\npub struct CurBools { pub a: bool, pub b: char, pub c: bool, pub d: u8, pub e: u8, pub f: u8 }",
                  [("a", "bool"), ("b", "char"), ("c", "bool"), ("d", "u8"), ("e", "u8"), ("f", "u8")], {"curated", "packed-candidate", "repr(C)"}))
        for (mod, ty, deftext, fields, tags) in c:
            fl = [dict(name=n, ty=t, t=PRIMS[t]) for n, t in fields]
            _, m = self.emit_struct(ty, fl, None, "named")
            self.add_item(mod, ty, deftext, m, tags, pool_t=T("super::%s::%s" % (mod, ty), tags={"nested-derived", "packed-candidate"}, depth=1))
        # enums from the documentation + explicit discriminants (known finding C01/C04)
        enums = [
            ("cur_e1", "CurE1", None, [("A", "unit", [], None), ("B", "unit", [], None)]),
            ("cur_e2", "CurE2", "u8", [("A", "unit", [], None), ("B", "unit", [], None)]),
            ("cur_e3", "CurE3", "u8", [("A", "tuple", ["u8"], None), ("B", "tuple", ["u8"], None)]),
            ("cur_e4", "CurE4", "u8", [("A", "unit", [], None), ("B", "tuple", ["u8"], None)]),
            ("cur_e5", "CurE5", "u8", [("A", "named", ["u8", "u16", "u16", "u16"], None), ("B", "named", ["u8", "u16", "u32"], None)]),
            ("cur_e6", "CurE6", "u8, C", [("A", "named", ["u8", "u16", "u16", "u16"], None), ("B", "named", ["u8", "u16", "u32"], None)]),
            ("cur_e7", "CurE7", "u8", [("A", "unit", [], 5), ("B", "unit", [], 9)]),
            ("cur_e8", "CurE8", "u16", [("A", "unit", [], 0), ("B", "unit", [], 1), ("C", "unit", [], 2)]),
            ("cur_e9", "CurE9", "u32", [("A", "unit", [], 1000), ("B", "unit", [], 70000)]),
            ("cur_e10", "CurE10", "i8", [("A", "unit", [], -1), ("B", "unit", [], 3)]),
        ]
        for (mod, ty, rp, vs) in enums:
            variants = []
            for (vn, st, ftys, discr) in vs:
                fs = [dict(name=("%d" % j if st == "tuple" else "a%d" % j), ty=t, t=PRIMS[t]) for j, t in enumerate(ftys)]
                v = dict(name=vn, style=st, fields=fs)
                if discr is not None:
                    v["discr"] = discr
                variants.append(v)
            d, m = self.emit_enum(ty, variants, rp)
            tags = {"curated", "enum", "repr:" + str(rp)}
            if any(v.get("discr") is not None for v in variants):
                tags.add("explicit-discr")
            self.add_item(mod, ty, d, m, tags, pool_t=T("super::%s::%s" % (mod, ty), tags={"nested-derived"}, depth=1))
        # one field-less and one data-carrying enum per supported repr width
        more = [
            ("cur_e11", "CurE11", "i16", [("A", "unit", [], None), ("B", "unit", [], None), ("C", "unit", [], None)]),
            ("cur_e12", "CurE12", "i32", [("A", "unit", [], None), ("B", "unit", [], None), ("C", "unit", [], None)]),
            ("cur_e13", "CurE13", "u32", [("A", "unit", [], None), ("B", "unit", [], None)]),
            ("cur_e14", "CurE14", "u16", [("A", "unit", [], None), ("B", "unit", [], None), ("C", "unit", [], None)]),
            ("cur_e15", "CurE15", "i16", [("A", "tuple", ["i16"], None), ("B", "tuple", ["u16"], None)]),
            ("cur_e16", "CurE16", "i32", [("A", "tuple", ["i32"], None), ("B", "tuple", ["f32"], None)]),
            ("cur_e17", "CurE17", "i8", [("A", "unit", [], None), ("B", "unit", [], None)]),
        ]
        for (mod, ty, rp, vs) in more:
            variants = []
            for (vn, st, ftys, discr) in vs:
                fs = [dict(name=("%d" % j if st == "tuple" else "a%d" % j), ty=t, t=PRIMS[t]) for j, t in enumerate(ftys)]
                variants.append(dict(name=vn, style=st, fields=fs))
            d, m = self.emit_enum(ty, variants, rp)
            self.add_item(mod, ty, d, m, {"curated", "enum", "repr:" + str(rp)}, pool_t=T("super::%s::%s" % (mod, ty), tags={"nested-derived"}, depth=1))
        # introspection-ignored fields in tuple and named structs
        for (mod, ty, style, fields) in [
            ("cur_ti1", "CurTI1", "tuple", [("u32", False), ("u16", True), ("u8", False)]),
            ("cur_ti2", "CurTI2", "tuple", [("String", True), ("u8", False)]),
            ("cur_ti3", "CurTI3", "tuple", [("u8", False), ("u64", True)]),
            ("cur_ni1", "CurNI1", "named", [("u8", False), ("u16", True), ("String", False), ("u32", True)]),
        ]:
            fl = []
            for j, (t, ign) in enumerate(fields):
                f = dict(name=("%d" % j if style == "tuple" else "f%d" % j), ty=t, t=PRIMS[t])
                if ign:
                    f["intro_ignore"] = True
                fl.append(f)
            d, m = self.emit_struct(ty, fl, None, style)
            self.add_item(mod, ty, d, m, {"curated", "struct", "introspect-ignore", "style:" + style})
        # enums whose versioned variants are not declared last (schema discriminants must stay declaration indices)
        ve = [
            ("cur_ve1", "CurVE1", None, 1, [("A", "unit", [], 0), ("B", "tuple", ["u32"], 1), ("C", "tuple", ["u16", "u16"], 0)]),
            ("cur_ve2", "CurVE2", "u8", 2, [("A", "unit", [], 0), ("B", "unit", [], 1), ("C", "named", ["u8"], 2), ("D", "tuple", ["u32"], 0), ("E", "unit", [], 1)]),
            ("cur_ve3", "CurVE3", "u16", 1, [("A", "tuple", ["String"], 1), ("B", "unit", [], 0), ("C", "tuple", ["u8"], 0)]),
        ]
        for (mod, ty, rp, curver, vs) in ve:
            variants = []
            for (vn, st, ftys, frm) in vs:
                fs = [dict(name=("%d" % j if st == "tuple" else "a%d" % j), ty=t, t=PRIMS[t]) for j, t in enumerate(ftys)]
                v = dict(name=vn, style=st, fields=fs)
                if frm:
                    v["from"] = frm
                variants.append(v)
            d, m = self.emit_enum(ty, variants, rp)
            self.add_item(mod, ty, d, m, {"curated", "enum", "versioned-variant", "repr:" + str(rp)}, version=curver)
        # variant-count boundaries of the implicit discriminant width
        for n in (255, 257):
            variants = [dict(name="V%d" % i, style="unit", fields=[]) for i in range(n)]
            d, m = self.emit_enum("Cur%d" % n, variants, None)
            self.add_item("cur_%d" % n, "Cur%d" % n, d, m, {"curated", "enum", "many-variants"})
        # runs of equally aligned fixed-size fields next to non-packed fields in default-repr structs: the
        # derive writes such runs with one copy when they are adjacent in memory, and rustc is free to reorder
        # them (niche-carrying bool/char vs plain integers)
        runs = [
            ("cur_run1", "CurRun1", [("a", "bool"), ("b", "u8"), ("c", "bool"), ("d", "u8"), ("s", "String")]),
            ("cur_run2", "CurRun2", [("a", "u8"), ("b", "bool"), ("c", "u8"), ("d", "bool"), ("e", "u8"), ("v", "Vec<u8>")]),
            ("cur_run3", "CurRun3", [("n", "usize"), ("a", "u32"), ("b", "char"), ("c", "u32"), ("d", "char")]),
            ("cur_run4", "CurRun4", [("a", "char"), ("b", "f32"), ("c", "char"), ("d", "i32"), ("e", "u32"), ("s", "String")]),
            ("cur_run5", "CurRun5", [("a", "i8"), ("b", "bool"), ("c", "i8"), ("d", "bool"), ("e", "bool"), ("f", "u8"), ("o", "Option<u8>")]),
            ("cur_run6", "CurRun6", [("a", "u16"), ("b", "i16"), ("c", "u16"), ("s", "String"), ("x", "bool"), ("y", "u8"), ("z", "bool"), ("w", "u8")]),
            ("cur_run7", "CurRun7", [("s", "String"), ("a", "u64"), ("b", "f64"), ("c", "i64"), ("t", "String"), ("d", "bool"), ("e", "bool"), ("f", "u8"), ("g", "i8")]),
        ]
        rr = random.Random(self.seed * 7919 + 13)
        classes = [["bool", "u8", "i8"], ["u16", "i16"], ["u32", "i32", "f32", "char"], ["u64", "i64", "f64"]]
        for k in range(8):
            fl = []
            for seg in range(rr.choice([1, 2, 2])):
                cl = rr.choice(classes)
                for i in range(rr.choice([3, 4, 5, 6])):
                    fl.append(("r%d_%d" % (seg, i), rr.choice(cl)))
                fl.append(("t%d" % seg, rr.choice(["String", "Vec<u8>", "usize", "Option<u8>", "Vec<u16>"])))
            if rr.random() < 0.4:
                fl = fl[-1:] + fl[:-1]
            runs.append(("cur_runr%d" % k, "CurRunR%d" % k, fl))
        for (mod, ty, fields) in runs:
            fl = [dict(name=n, ty=t, t=(PRIMS[t] if t in PRIMS else T(t))) for n, t in fields]
            d, m = self.emit_struct(ty, fl, None, "named")
            self.add_item(mod, ty, d, m, {"curated", "struct", "field-runs"})
        variants = [dict(name="A", style="named", fields=[dict(name=n, ty=t, t=(PRIMS[t] if t in PRIMS else T(t))) for n, t in [("a", "bool"), ("b", "u8"), ("c", "bool"), ("d", "u8"), ("s", "String")]]),
                    dict(name="B", style="unit", fields=[]),
                    dict(name="C", style="tuple", fields=[dict(name="%d" % j, ty=t, t=(PRIMS[t] if t in PRIMS else T(t))) for j, t in enumerate(["u32", "char", "i32", "char", "String"])])]
        d, m = self.emit_enum("CurRunE", variants, None)
        self.add_item("cur_rune", "CurRunE", d, m, {"curated", "enum", "field-runs"})
        # struct holding the explicit-discriminant enum next to a byte (C01/C04 finding #8)
        fl = [dict(name="e", ty="super::cur_e7::CurE7", t=T("x")), dict(name="x", ty="u8", t=PRIMS["u8"])]
        d, m = self.emit_struct("CurS7", fl, "C", "named")
        self.add_item("cur_s7", "CurS7", d, m, {"curated", "struct", "explicit-discr", "repr(C)"})
        # many variants: two byte discriminant without repr
        variants = [dict(name="V%d" % i, style="unit", fields=[]) for i in range(300)]
        variants[299] = dict(name="V299", style="tuple", fields=[dict(name="0", ty="u32", t=PRIMS["u32"])])
        d, m = self.emit_enum("CurBig", variants, None)
        self.add_item("cur_big", "CurBig", d, m, {"curated", "enum", "many-variants"})
        variants = [dict(name="V%d" % i, style="unit", fields=[]) for i in range(256)]
        d, m = self.emit_enum("Cur256", variants, None)
        self.add_item("cur_256", "Cur256", d, m, {"curated", "enum", "many-variants"})

    # -- families -----------------------------------------------------------------------
    def new_helper_fn(self, rust_ty, rust_expr):
        self.fn_counter += 1
        n = "dflt_fn_%d" % self.fn_counter
        self.helpers.append("pub fn %s() -> %s { %s }" % (n, rust_ty, rust_expr))
        return n

    def new_ctor(self, rust_ty, rust_expr):
        self.fn_counter += 1
        n = "Ctor%d" % self.fn_counter
        self.helpers.append("pub struct %s;\nimpl savefile::ValueConstructor<%s> for %s { fn make_value() -> %s { %s } }" % (n, rust_ty, n, rust_ty, rust_expr))
        return n

    def literal_for(self, pname):
        """(rust literal, Val expr) of a non-default value for a primitive"""
        r = self.rng
        if pname == "bool":
            return "true", "Val::Bool(true)"
        if pname == "String":
            s = r.choice(["hello", "x", "default text"])
            return '"%s".to_string()' % s, 'Val::Str("%s".to_string())' % s
        if pname == "char":
            return "'q'", "Val::Char(113)"
        if pname in ("f32", "f64"):
            return "1.5", ("Val::F32(0x3fc00000)" if pname == "f32" else "Val::F64(0x3ff8000000000000)")
        if pname.startswith("u"):
            v = r.choice([1, 42, 100, 255])
            return str(v), "Val::U(%d)" % v
        v = r.choice([-1, 42, -100, 127])
        return str(v), "Val::I(%d)" % v

    def fam_new_field(self, name, ver, abi_only, need_intro=False):
        r = self.rng
        # type with a known default
        for _ in range(20):
            t = self.rand_type(1, allow_pool=False, need_intro=need_intro)
            if t.default:
                break
        else:
            t = PRIMS["u32"]
        f = dict(name=name, ty=t.rust, t=t, default_val=t.default)
        if not t.intro:
            f["intro_ignore"] = True
        f["from"] = ver
        mode = r.choice(["Default", "Default", "val", "fn"])
        base = t.rust
        if mode == "val" and base in PRIMS and base not in ("char", "f32", "f64", "u128", "i128"):
            lit, val = self.literal_for(base)
            if base == "String":
                f["dflt"] = ("val", val, lit.replace('"', "").replace(".to_string()", ""))
            else:
                f["dflt"] = ("val", val, lit)
        elif mode == "fn" and base in PRIMS:
            lit, val = self.literal_for(base)
            fn = self.new_helper_fn(base, lit if base != "f32" and base != "f64" else lit)
            f["dflt"] = ("fn", val, fn)
        else:
            f["dflt"] = ("Default", t.default, None)
        return f

    def family(self, j, abi_only, packed=False, enum=False):
        r = self.rng
        self.abi_ctx = abi_only
        nver = r.choice([2, 3, 3, 4, 5])
        edits_log = []
        defs = []
        name = "F%d" % j
        if enum:
            variants = []
            for i in range(r.choice([1, 2, 3])):
                st = r.choice(["unit", "named"])
                fs = []
                if st == "named":
                    for k in range(r.choice([1, 2])):
                        t = self.rand_type(1, allow_pool=False, need_intro=True)
                        f = dict(name="a%d" % k, ty=t.rust, t=t)
                        if not t.intro:
                            f["intro_ignore"] = True
                        fs.append(f)
                variants.append(dict(name="V%d" % i, style=st, fields=fs))
            repr_attr = r.choice([None, "u8", "u16"])
            cur = dict(kind="enum", variants=variants, repr=repr_attr)
        else:
            nf = r.choice([1, 2, 3, 4])
            fields = []
            for i in range(nf):
                if packed:
                    t = self.rand_prim(["u32", "u32", "i32", "f32"])
                else:
                    t = self.rand_type(0, allow_pool=not abi_only, allow_fam=True)
                f = dict(name="b%d" % i, ty=t.rust, t=t)
                if not t.intro:
                    f["intro_ignore"] = True
                fields.append(f)
            cur = dict(kind="struct", fields=fields, repr=("C" if packed or r.random() < 0.3 else None))
        import copy
        defs.append(copy.deepcopy(cur))
        counter = 0
        for ver in range(1, nver):
            nedits = r.choice([1, 1, 2, 3])
            for _ in range(nedits):
                if cur["kind"] == "enum":
                    choice = r.choice(["addvar", "addvar", "addfield", "rmfield"])
                    if choice == "addvar":
                        st = r.choice(["unit", "named"])
                        fs = []
                        if st == "named":
                            t = self.rand_type(1, allow_pool=False, need_intro=True)
                            f = dict(name="a0", ty=t.rust, t=t)
                            if not t.intro:
                                f["intro_ignore"] = True
                            fs.append(f)
                        cur["variants"].append(dict(name="V%d" % len(cur["variants"]), style=st, fields=fs, **{"from": ver}))
                        edits_log.append("v%d: append variant V%d" % (ver, len(cur["variants"]) - 1))
                        continue
                    named = [v for v in cur["variants"] if v["style"] == "named"]
                    if not named:
                        continue
                    v = r.choice(named)
                    target_fields = v["fields"]
                    where = "%s." % v["name"]
                    if choice == "addfield" and v.get("from", 0) >= ver:
                        continue
                else:
                    choice = r.choice(["add", "add", "remove", "retype"] if not abi_only else ["add", "add", "remove"])
                    target_fields = cur["fields"]
                    where = ""
                    choice = {"add": "addfield", "remove": "rmfield", "retype": "retype"}[choice]
                if choice == "addfield":
                    counter += 1
                    if packed:
                        f = dict(name="n%d" % counter, ty="u32", t=PRIMS["u32"], default_val="Val::U(0)", dflt=("Default", "Val::U(0)", None))
                        f["from"] = ver
                    else:
                        f = self.fam_new_field("n%d" % counter, ver, abi_only, need_intro=(cur["kind"] == "enum"))
                    pos = r.randrange(len(target_fields) + 1)
                    target_fields.insert(pos, f)
                    edits_log.append("v%d: add %s%s: %s at position %d (default %s)" % (ver, where, f["name"], f["ty"], pos, f["dflt"][0]))
                elif choice == "rmfield":
                    cand = [f for f in target_fields if f.get("kind", "normal") == "normal" and f.get("to") is None and not f.get("alts") and f.get("from", 0) < ver and not f.get("ignore")]
                    if abi_only:
                        cand = [f for f in cand if f["t"].default and "{fam" not in f["ty"]]
                    if not cand:
                        continue
                    f = r.choice(cand)
                    f["to"] = ver - 1
                    f.pop("dflt", None)
                    f.pop("intro_key", None)
                    if abi_only or (f["t"].default and "{fam" not in f["ty"] and r.random() < 0.4):
                        f["kind"] = "abiremoved"
                        f["default_val"] = f["t"].default
                        if f["ty"] in PRIMS and f["ty"] not in ("f32", "f64", "char", "u128", "i128") and r.random() < 0.5:
                            lit, val = self.literal_for(f["ty"])
                            f["ctor"] = (self.new_ctor(f["ty"], lit), val)
                        edits_log.append("v%d: remove %s%s (AbiRemoved%s)" % (ver, where, f["name"], " with constructor" if f.get("ctor") else ""))
                    else:
                        f["kind"] = "removed"
                        edits_log.append("v%d: remove %s%s (Removed)" % (ver, where, f["name"]))
                elif choice == "retype":
                    cand = [f for f in target_fields if f.get("kind", "normal") == "normal" and f.get("to") is None and not f.get("alts") and f.get("from", 0) == 0 and f["ty"] in RETYPE and not f.get("ignore")]
                    if not cand:
                        continue
                    f = r.choice(cand)
                    newty, conv = r.choice(RETYPE[f["ty"]])
                    f["alts"] = [(0, ver - 1, f["ty"], conv)]
                    f["from"] = ver
                    edits_log.append("v%d: change type of %s%s from %s to %s (%s)" % (ver, where, f["name"], f["ty"], newty, conv))
                    f["ty"] = newty
                    f["t"] = T(newty, default=None)
            defs.append(copy.deepcopy(cur))
        fam = dict(name=name, defs=defs, edits=edits_log, abi=abi_only, packed=packed, enum=enum)
        self.families.append(fam)
        self.abi_ctx = False
        if not abi_only or True:
            self.fam_pool.append((j, len(defs)))

    # -- output ------------------------------------------------------------------------------
    def render(self):
        out = []
        out.append("// GENERATED by gen/zoo.py -- do not edit by hand")
        out.append("#![allow(dead_code, unused_imports, unused_variables, non_camel_case_types, clippy::all)]")
        hdr = ["use crate::model::{Alt, Conv, FieldKind, FieldShape, Shape, Val, VariantShape};", "use crate::stdimpls::{mismatch, Model};",
               "use crate::ops::{Family, TypeEntry};", "use savefile::prelude::Savefile;", "use super::recget;", "use super::helpers::*;"]
        out.append("use crate::model::Val;")
        out.append("use crate::ops::{Family, TypeEntry};")
        out.append("pub fn recget<'a>(f: &'a [(String, Val)], name: &str) -> &'a Val {")
        out.append("    match f.iter().find(|(n, _)| n == name) { Some((_, v)) => v, None => panic!(\"HARNESS BUG: missing field {}\", name) }")
        out.append("}")
        out.append("pub mod helpers {")
        out.append("    pub fn conv_u64_to_string(x: u64) -> String { x.to_string() }")
        out.append("    pub fn conv_double_u16(x: u16) -> u32 { (x as u32) * 2 }")
        out.append("    pub fn conv_strlen(x: String) -> u32 { x.len() as u32 }")
        for h in self.helpers:
            for line in h.split("\n"):
                out.append("    " + line)
        out.append("}")
        for it in self.items:
            out.append("pub mod %s {" % it["mod"])
            for h in hdr:
                out.append("    " + h)
            for line in it["deftext"].split("\n"):
                out.append("    " + line)
            for line in it["model"].split("\n"):
                out.append("    " + line)
            out.append("}")
        for j, fam in enumerate(self.families):
            for k, d in enumerate(fam["defs"]):
                name = "F%d" % j
                if d["kind"] == "struct":
                    deftext, model = self.emit_struct(name, d["fields"], d["repr"], "named", famver=k)
                else:
                    deftext, model = self.emit_enum(name, d["variants"], d["repr"], famver=k)
                d["deftext"] = deftext
                out.append("pub mod f%d_v%d {" % (j, k))
                for h in hdr:
                    out.append("    " + h)
                for line in deftext.split("\n"):
                    out.append("    " + line)
                for line in model.split("\n"):
                    out.append("    " + line)
                out.append("}")
        # registries
        out.append("pub fn entries() -> Vec<TypeEntry> {")
        out.append("    let mut v: Vec<TypeEntry> = vec![];")
        for it in self.items:
            tags = ", ".join('"%s"' % t for t in it["tags"])
            if it["instances"]:
                for inst in it["instances"]:
                    out.append("    v.push(crate::entry!(%s::%s<%s>, %s, &[%s], %d));" % (it["mod"], it["ty"], inst, rust_str(it["deftext"] + "\n// instantiated at <%s>" % inst), tags, it["version"]))
            else:
                out.append("    v.push(crate::entry!(%s::%s, %s, &[%s], %d));" % (it["mod"], it["ty"], rust_str(it["deftext"]), tags, it["version"]))
        out.append("    v")
        out.append("}")
        out.append("pub fn families() -> Vec<Family> {")
        out.append("    let mut v: Vec<Family> = vec![];")
        for j, fam in enumerate(self.families):
            tags = ['"family"'] + (['"abi-writable"'] if fam["abi"] else []) + (['"packed-family"'] if fam["packed"] else []) + (['"enum-family"'] if fam["enum"] else [])
            out.append("    v.push(Family { name: \"F%d\", edits: %s, abi_writable: %s, versions: vec![" % (j, rust_str("; ".join(fam["edits"])), "true" if fam["abi"] else "false"))
            for k, d in enumerate(fam["defs"]):
                out.append("        crate::entry!(f%d_v%d::F%d, %s, &[%s], %d)," % (j, k, j, rust_str(d["deftext"]), ", ".join(tags), k))
            out.append("    ] });")
        out.append("    v")
        out.append("}")
        return "\n".join(out) + "\n"


def render_abi(g, zoo_mod):
    """ABI glue for the abi-writable families: one exported interface per family version
    (same trait and method names in every version), a recording implementation, per-version
    call adapters and per-(caller i, implementation j) connection constructors."""
    out = []
    out.append("// GENERATED by gen/zoo.py --abi-out -- do not edit by hand")
    out.append("#![allow(dead_code, unused_imports, unused_variables, non_camel_case_types, non_snake_case, clippy::all)]")
    out.append("use crate::c10::{FamImpl, Op, PairEntry, Seen, LedgerEntry, model_call};")
    out.append("use savefile_abi::{AbiConnection, AbiExportable};")
    out.append("use savefile_derive::savefile_abi_exportable;")
    out.append("use vcore::model::{Shape, Val};")
    out.append("use vcore::stdimpls::Model;")
    pairs = []
    ledgers = []
    # trait names and family labels must be unique across the committed and the additional zoo (the ledger's
    # file names are derived from the trait name)
    lp = "" if zoo_mod == "zoo" else "X"
    for k, fam in enumerate(g.families):
        if not fam["abi"]:
            continue
        n = len(fam["defs"])
        for i in range(n):
            m = "if%d_v%d" % (k, i)
            out.append("pub mod %s {" % m)
            out.append("    use super::*;")
            out.append("    pub type T = vcore::%s::f%d_v%d::F%d;" % (zoo_mod, k, i, k))
            out.append("    #[savefile_abi_exportable(version = %d)]" % i)
            out.append("    pub trait If%sF%d {" % (lp, k))
            out.append("        fn echo(&self, x: T) -> T;")
            out.append("        fn take_ref(&self, x: &T) -> u32;")
            out.append("        fn give(&self, seed: u64, maxver: u32) -> T;")
            out.append("        fn echo_vec(&self, x: Vec<T>) -> Vec<T>;")
            out.append("        fn opt_res(&self, x: Option<T>) -> Result<T, String>;")
            out.append("        fn via_cb(&self, x: T, f: &dyn Fn(T) -> T) -> T;")
            out.append("        fn fut(&self, x: T) -> std::pin::Pin<Box<dyn std::future::Future<Output = T>>>;")
            out.append("        fn mk_cb(&self, tag: u32) -> Box<dyn Fn(T) -> T>;")
            out.append("    }")
            out.append("    impl If%sF%d for FamImpl<T> {" % (lp, k))
            out.append("        fn echo(&self, x: T) -> T { self.see(\"echo\", &x); x }")
            out.append("        fn take_ref(&self, x: &T) -> u32 { self.see(\"take_ref\", x); 7 }")
            out.append("        fn give(&self, seed: u64, maxver: u32) -> T { self.make(seed, maxver) }")
            out.append("        fn echo_vec(&self, x: Vec<T>) -> Vec<T> { for e in x.iter() { self.see(\"echo_vec\", e); } x }")
            out.append("        fn opt_res(&self, x: Option<T>) -> Result<T, String> { match x { Some(v) => { self.see(\"opt_res\", &v); Ok(v) } None => Err(\"none\".to_string()) } }")
            out.append("        fn via_cb(&self, x: T, f: &dyn Fn(T) -> T) -> T { self.see(\"via_cb\", &x); let y = f(x); self.see(\"via_cb_ret\", &y); y }")
            out.append("        fn fut(&self, x: T) -> std::pin::Pin<Box<dyn std::future::Future<Output = T>>> { self.see(\"fut\", &x); Box::pin(async move { crate::c09::YieldOnce(false).await; x }) }")
            out.append("        fn mk_cb(&self, tag: u32) -> Box<dyn Fn(T) -> T> { let seen = self.seen_handle(); Box::new(move |x: T| { seen.lock().unwrap_or_else(|p| p.into_inner()).push((\"mk_cb\", x.to_val())); x }) }")
            out.append("    }")
            out.append("    pub fn call(conn: &AbiConnection<dyn If%sF%d>, op: &Op) -> Result<Val, String> {" % (lp, k))
            out.append("        model_call::<T>(op, |x| conn.echo(x), |x| conn.take_ref(x), |s, m| conn.give(s, m), |x| conn.echo_vec(x), |x| conn.opt_res(x), |x, f| conn.via_cb(x, f), |x| conn.fut(x), |t| conn.mk_cb(t))")
            out.append("    }")
            out.append("}")
            ledgers.append((k, i))
        for i in range(n):
            for j in range(n):
                out.append("pub fn mk_%d_%d_%d(seen: Seen) -> Result<Box<dyn FnMut(&Op) -> Result<Val, String>>, String> {" % (k, i, j))
                out.append("    let imp = FamImpl::<if%d_v%d::T>::new(seen);" % (k, j))
                out.append("    let boxed: Box<dyn if%d_v%d::If%sF%d> = Box::new(imp);" % (k, j, lp, k))
                out.append("    let conn = vcore::util::catch(|| unsafe { AbiConnection::<dyn if%d_v%d::If%sF%d>::from_boxed_trait_for_test(<dyn if%d_v%d::If%sF%d as AbiExportable>::ABI_ENTRY, boxed) })" % (k, i, lp, k, k, j, lp, k))
                out.append("        .map_err(|p| format!(\"panic: {}\", p))?.map_err(|e| format!(\"{:?}\", e))?;")
                out.append("    Ok(Box::new(move |op: &Op| if%d_v%d::call(&conn, op)))" % (k, i))
                out.append("}")
                pairs.append((k, i, j))
    out.append("pub fn pairs() -> Vec<PairEntry> {")
    out.append("    vec![")
    for (k, i, j) in pairs:
        out.append("        PairEntry { family: \"%sF%d\", index: %d, caller: %d, callee: %d, shape_caller: <if%d_v%d::T as Model>::shape, shape_callee: <if%d_v%d::T as Model>::shape, mk: mk_%d_%d_%d }," % (lp, k, k, i, j, k, i, k, j, k, i, j))
    out.append("    ]")
    out.append("}")
    out.append("pub fn ledgers() -> Vec<LedgerEntry> {")
    out.append("    vec![")
    for (k, i) in ledgers:
        out.append("        LedgerEntry { family: \"%sF%d\", version: %d, verify: |dir| savefile_abi::verify_compatiblity::<dyn if%d_v%d::If%sF%d>(dir).map_err(|e| format!(\"{:?}\", e)) }," % (lp, k, i, k, i, lp, k))
    out.append("    ]")
    out.append("}")
    return "\n".join(out) + "\n"


CONV_FN = {"ToStr": "conv_u64_to_string", "Double": "conv_double_u16", "StrLen": "conv_strlen"}
RETYPE = {
    "u8": [("u16", "Same"), ("u32", "Same"), ("u64", "Same"), ("Option<u8>", "WrapSome")],
    "u16": [("u32", "Same"), ("u32", "Double"), ("u64", "Same")],
    "u32": [("u64", "Same"), ("Option<u32>", "WrapSome")],
    "i8": [("i16", "Same"), ("i64", "Same")],
    "i16": [("i32", "Same")],
    "i32": [("i64", "Same")],
    "u64": [("String", "ToStr")],
    "String": [("u32", "StrLen"), ("Option<String>", "WrapSome")],
}

def enum_tag_type(repr_attr):
    if repr_attr:
        for part in repr_attr.split(","):
            p = part.strip()
            if p in ("u8", "i8", "u16", "i16", "u32", "i32"):
                return p
    return None

def enum_width(repr_attr, nvariants):
    if repr_attr:
        for part in repr_attr.split(","):
            p = part.strip()
            if p in ("u8", "i8"):
                return 1
            if p in ("u16", "i16"):
                return 2
            if p in ("u32", "i32"):
                return 4
    if nvariants <= 256:
        return 1
    if nvariants <= 65536:
        return 2
    return 4

def rust_str(s):
    return 'r####"%s"####' % s

def main():
    ap = argparse.ArgumentParser()
    ap.add_argument("--seed", type=int, default=0)
    ap.add_argument("--types", type=int, default=60)
    ap.add_argument("--families", type=int, default=20)
    ap.add_argument("--out", required=True)
    ap.add_argument("--module", default="zoo")
    ap.add_argument("--abi-out", default=None)
    ap.add_argument("--no-curated", action="store_true", help="skip the curated items (used for the additional thorough-tier zoo)")
    a = ap.parse_args()
    g = Gen(a.seed, a.module)
    if not a.no_curated:
        g.curated()
    # families first (so that standalone types can not reference them; families may reference earlier families)
    for j in range(a.families):
        kind = j % 5
        g.family(j, abi_only=(kind in (1, 3)), packed=(kind == 3 or kind == 4 and j % 2 == 0), enum=(kind == 2))
    for i in range(a.types):
        k = i % 10
        if k in (0, 1, 2, 3):
            g.random_struct(i)
        elif k in (4, 5):
            g.packed_struct(i)
        elif k in (6, 7, 8):
            g.random_enum(i)
        else:
            g.generic_item(i)
    def write_if_changed(path, text):
        # keep mtimes stable when nothing changed (cargo would otherwise rebuild the zoo crate)
        try:
            if open(path).read() == text:
                return
        except OSError:
            pass
        open(path, "w").write(text)
    src = g.render()
    write_if_changed(a.out, src)
    if a.abi_out:
        write_if_changed(a.abi_out, render_abi(g, a.module))
    feats = {}
    for it in g.items:
        for t in it["tags"]:
            feats[t] = feats.get(t, 0) + 1
    print(json.dumps({"seed": a.seed, "types": len(g.items), "families": len(g.families), "family_defs": sum(len(f["defs"]) for f in g.families), "features": feats}))

if __name__ == "__main__":
    main()
