"""setup: (re)generate the committed zoo sources deterministically and pre-build every build
flavour used by the quick tier, so that the checks themselves only pay for incremental builds."""
import os, subprocess, sys, time
sys.path.insert(0, os.path.dirname(os.path.abspath(__file__)))
import plan as PLAN

VERIF = os.path.dirname(os.path.dirname(os.path.abspath(__file__)))
env = dict(os.environ)
env["CARGO_NET_OFFLINE"] = "true"

def sh(cmd, cwd, extra_env=None):
    e = dict(env)
    if extra_env:
        e.update(extra_env)
    t0 = time.time()
    p = subprocess.run(cmd, cwd=cwd, env=e, stdout=subprocess.PIPE, stderr=subprocess.STDOUT, text=True)
    print("[setup] %s (%.0fs) rc=%d" % (" ".join(cmd)[:150], time.time() - t0, p.returncode), flush=True)
    if p.returncode != 0:
        print(p.stdout[-3000:])
    return p.returncode

rc = 0
# the generated sources are committed; regenerating them must be a no-op (determinism check)
rc |= sh(["python3", os.path.join(VERIF, "gen", "zoo.py"), "--seed", "0", "--types", "60", "--families", "20",
          "--out", os.path.join(VERIF, "harness", "vcore", "src", "zoo.rs"), "--abi-out", os.path.join(VERIF, "harness", "vabi", "src", "fam_gen.rs")], VERIF)
seen = set()
for prop, P in sorted(PLAN.PROPS.items()):
    for r in P["runs"]["quick"]:
        for pf in r.get("plugins", []):
            key = (pf, "vplugin")
            if key not in seen:
                seen.add(key)
for prop, P in sorted(PLAN.PROPS.items()):
    for r in P["runs"]["quick"]:
        key = (r["build"], r.get("crate", "vh"))
        seen.add(key)
for (flavor, crate) in sorted(seen):
    spec = PLAN.BUILDS[flavor]
    ws = os.path.join(VERIF, PLAN.CRATES[crate]["workspace"])
    cmd = PLAN.build_cmd(flavor, crate, "quick")
    e = {"CARGO_TARGET_DIR": os.path.join(VERIF, "target", spec["target_dir"])}
    e.update(spec.get("env", {}))
    rc |= sh(cmd, ws, e)
sys.exit(1 if rc else 0)
