"""setup: regenerate the committed zoo sources deterministically (no-op when unchanged) and pre-build every
build flavour used by the quick tier, so that the checks themselves only pay for incremental builds."""
import os, subprocess, sys, time
sys.path.insert(0, os.path.dirname(os.path.abspath(__file__)))
import plan as PLAN

VERIF = os.path.dirname(os.path.dirname(os.path.abspath(__file__)))
env = dict(os.environ)
env["CARGO_NET_OFFLINE"] = "true"


def run(cmd, cwd=None, env=None, timeout=None, capture=True):
    e = dict(os.environ)
    e["CARGO_NET_OFFLINE"] = "true"
    if env:
        e.update(env)
    p = subprocess.run(cmd, cwd=cwd, env=e, stdout=subprocess.PIPE, stderr=subprocess.STDOUT, text=True, errors="replace")
    return p.returncode, p.stdout or ""


def log(*a):
    print(*a, flush=True)


rc, out = run(["python3", os.path.join(VERIF, "gen", "zoo.py"), "--seed", "0", "--types", "60", "--families", "20",
               "--out", os.path.join(VERIF, "harness", "vcore", "src", "zoo.rs"), "--abi-out", os.path.join(VERIF, "harness", "vabi", "src", "fam_gen.rs")], cwd=VERIF)
print("[setup] zoo generator rc=%d" % rc)
failed = rc != 0
seen = []
for prop, P in sorted(PLAN.PROPS.items()):
    for r in P["runs"]["quick"]:
        for pf in r.get("plugins", []):
            if (pf, "vplugin") not in seen:
                seen.append((pf, "vplugin"))
        key = (r["build"], r.get("crate", "vh"))
        if key not in seen:
            seen.append(key)
done = set()
for (flavor, crate) in seen:
    spec = PLAN.BUILDS[flavor]
    # all harness crates share one cargo invocation per flavour (except miri / single-package flavours)
    k = (flavor, crate if (spec.get("runner") == "miri" or spec.get("single_package") or PLAN.CRATES[crate]["workspace"] != "harness") else "*")
    if k in done:
        continue
    done.add(k)
    ok, res = PLAN.build(VERIF, flavor, crate, "quick", run, log)
    if not ok:
        print(res)
        failed = True
sys.exit(1 if failed else 0)
