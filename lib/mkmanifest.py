"""Writes /verif/MANIFEST.json from lib/plan.py (single source of truth for what each check runs)."""
import json, os, sys
sys.path.insert(0, os.path.dirname(os.path.abspath(__file__)))
import plan as PLAN
import claims as CLAIMS

VERIF = os.path.dirname(os.path.dirname(os.path.abspath(__file__)))
props = [json.loads(l)["id"] for l in open(os.path.join(VERIF, "properties.jsonl"))]
checks = []
for pid in props:
    if pid not in PLAN.PROPS or pid not in CLAIMS.CLAIMS:
        continue
    P = PLAN.PROPS[pid]
    C = CLAIMS.CLAIMS[pid]
    checks.append(dict(
        property_id=pid,
        quick_cmd="./check %s --tier quick" % pid,
        thorough_cmd="./check %s --tier thorough" % pid,
        evidence_file="/verif/evidence/%s.json" % pid,
        replay_cmd_template="./check %s --replay {path}" % pid,
        engine=C["engine"],
        level_claimed=dict(category=P["level"], text=C["text"], design_ref=C["design_ref"]),
        level_note=C["note"],
        technique=C["technique"],
    ))
na = [dict(property_id=p, reason=CLAIMS.NOT_APPLICABLE.get(p, "check not built yet")) for p in props if p not in [c["property_id"] for c in checks]]
m = dict(
    version=1,
    setup_cmd="./setup.sh",
    hooks=dict(
        guard="cargo feature `verif_hooks` of savefile-abi (off by default)",
        enable="harness crates depend on savefile-abi with features = [\"verif_hooks\"] (path dependency on /repo/savefile-abi)",
        baseline_off_cmd="cd /repo && cargo test --workspace --no-fail-fast --offline",
        source_commits=CLAIMS.HOOK_COMMITS,
        add_only=True,
    ),
    engines=[
        dict(name="vh", path="harness/vh", serves_properties=["C01", "C02", "C03", "C04", "C05", "C06", "C07", "C08", "C12", "C13", "C14", "C17", "C18"],
             kind_free_text="runtime monitors over the real serialization code: reference wire-format model, fault-injecting readers/writers, schema-driven reader, child-process isolation"),
        dict(name="va", path="harness/vabi", serves_properties=["C09", "C10", "C11", "C15"],
             kind_free_text="runtime monitors over savefile-abi: direct-call sequential model, drop/creation event log, version projection oracle, separately compiled plugin"),
        dict(name="vc", path="harness/vconc", serves_properties=["C16"],
             kind_free_text="concurrency stress with hook-injected schedule perturbation, ticket conservation monitor, watchdog + gdb; ThreadSanitizer / Miri builds"),
        dict(name="zoo", path="gen/zoo.py", serves_properties=["C01", "C02", "C03", "C04", "C05", "C06", "C07", "C08", "C10", "C12", "C13", "C15", "C17", "C18"],
             kind_free_text="seeded generator of derive(Savefile) definitions, evolution families and ABI interface families (the 'programs' quantifier)"),
    ],
    checks=checks,
    notes="All checks: exit 0 held / 1 + VIOLATION line / 2 inconclusive (never on a healthy tree). KNOWN_FINDINGS.txt lists recorded defects; DESIGN.md explains every oracle.",
    not_applicable=na,
)
json.dump(m, open(os.path.join(VERIF, "MANIFEST.json"), "w"), indent=1)
print("MANIFEST.json: %d checks, %d not_applicable" % (len(checks), len(na)))
