#!/bin/bash
# confirm_seed.sh <worktree> <A|B> : independently confirm a seeded change inside its scratch worktree
# 1. patch + demo: full suite; every failing test must belong to the demo module, and at least one must fail
# 2. demo without patch: demo passes
wt=$1; v=$2; s=$wt/SEEDED/$v
cd $wt || exit 2
export CARGO_NET_OFFLINE=true CARGO_TARGET_DIR=$wt/target
git checkout -q -- . ; git clean -fdq savefile-test/src
mod=$(grep -oE 'mod [a-z_0-9]*(seeded|demo)[a-z_0-9]*;' $s/notes.md | head -1 | sed 's/mod \(.*\);/\1/')
[ -z "$mod" ] && mod=demo
git apply $s/patch.diff || { echo "RESULT $wt $v apply-failed"; exit 1; }
cp $s/demo.rs savefile-test/src/$mod.rs
echo "mod $mod;" >> savefile-test/src/lib.rs
cargo test --workspace --no-fail-fast --offline > $s/confirm_with_patch.log 2>&1
failed=$(grep -E '^test .* \.\.\. FAILED' $s/confirm_with_patch.log | sed 's/^test \(.*\) \.\.\. FAILED/\1/' | sort -u)
nfail=$(echo "$failed" | grep -c . )
nother=$(echo "$failed" | grep -v "^$mod::" | grep -c . )
npass=$(grep -E '^test result' $s/confirm_with_patch.log | sed 's/.* \([0-9]*\) passed.*/\1/' | paste -sd+ | bc)
compile_err=$(grep -c '^error' $s/confirm_with_patch.log)
git checkout -q -- savefile savefile-derive savefile-abi
cargo test -p savefile-test --offline -- "$mod::" > $s/confirm_without_patch.log 2>&1
ok2=$(grep -E '^test result: ok' $s/confirm_without_patch.log | head -1)
nf2=$(grep -cE '^test .* \.\.\. FAILED' $s/confirm_without_patch.log)
git checkout -q -- . ; rm -f savefile-test/src/$mod.rs
echo "RESULT $wt $v mod=$mod with_patch: passed=$npass demo_failed=$((nfail-nother)) other_failed=$nother errors=$compile_err | without_patch: failed=$nf2 [$ok2]"
