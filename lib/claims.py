"""Per-property claim texts for MANIFEST.json."""
HOOK_COMMITS = ["84fa00b", "a007c71"]
NOT_APPLICABLE = {}
BASE_NOTE = ("Trusted: the harness' reference model of the documented wire format (harness/vcore/src/model.rs), the zoo generator's bookkeeping of definitions and edits, "
             "rustc/std; x86-64 Linux. Covers only executions produced by the workloads listed in the evidence file.")

def c(engine, technique, text, ref, note=BASE_NOTE):
    return dict(engine=engine, technique=technique, text=text, design_ref=ref, note=note)

CLAIMS = {
    "C01": c("vh", "runtime monitoring: reference-model oracle over generated types and values (release + debug builds)",
             "Every save/load of generated values of ~320 type subjects (library types, generated derive definitions, every version of 20 evolution families; a fresh zoo per seed in the thorough tier) "
             "in all five containers is compared with the reference-normalised value and the consumed byte count. Held means: no counter-example among the executions listed; exploration is the right "
             "level because the quantifier is over type definitions and values, which are sampled with boundary bias, not enumerated.", "DESIGN.md §5 C01"),
    "C02": c("vh", "runtime monitoring: differential against an independent reference encoder/decoder",
             "Real output bytes (bare, noschema file, schema file suffix, header) are compared byte-for-byte with an encoder written from the format description, and files assembled by that encoder are loaded "
             "by the real code. Catches changes made consistently on both sides, which same-build round trips cannot see.", "DESIGN.md §5 C02"),
    "C03": c("vh", "runtime monitoring: version-projection oracle over generated evolution histories",
             "All version pairs i<=j of generated evolution families (adds with three default kinds, Removed/AbiRemoved removals, type changes with conversions, appended variants, nested and packed families): "
             "data saved by definition i is loaded by definition j and compared with the reference decoder's reading of the same bytes under definition j's declared shape.", "DESIGN.md §5 C03"),
    "C04": c("vh", "runtime monitoring: bulk-versus-elementwise differential + memory-image oracle",
             "Every positive Packed decision is checked against size_of and the raw memory image; six container kinds are compared byte-for-byte and value-for-value with element-wise serialization; "
             "bulk reads of older-version data are compared with element-wise reads.", "DESIGN.md §5 C04"),
    "C05": c("vh", "runtime monitoring: all-pairs cross-loading with a three-valued layout-relation oracle",
             "All ordered pairs of ~320 subjects (104k pairs) with must-accept / must-reject / no-verdict classification computed from the harness' own shapes, plus header corruption with reader-position monitor.", "DESIGN.md §5 C05"),
    "C06": c("vh", "runtime monitoring: structure-aware mutation fuzzing in isolated, address-space-limited child processes with a lengths-first / bit-pattern value inspector",
             "Mutants target every length, tag, discriminant, bool, char and special payload of valid encodings, plus schema sections and random bytes; outcomes are classified per input, process deaths and "
             "non-termination (child CPU time) are attributed to the journalled input. Release build (the only one in which size arithmetic wraps), debug build (overflow checks) and Miri; thorough adds AddressSanitizer.", "DESIGN.md §5 C06"),
    "C07": c("vh", "runtime monitoring: exhaustive crash-point (truncation) enumeration",
             "Every cut offset of every saved file up to 6000 bytes in five containers, plus frame-boundary neighbourhoods of multi-chunk encrypted streams.", "DESIGN.md §5 C07"),
    "C08": c("vh", "runtime monitoring: exhaustive fault-offset enumeration with instrumented Read/Write and an independent AES-GCM stream decryptor",
             "Writer and reader fail at every offset with four error kinds; short-write / Interrupted schedules; accepted bytes checked to be a prefix (plaintext prefix for encrypted streams).", "DESIGN.md §5 C08"),
    "C09": c("va", "runtime monitoring: same scripted history against direct calls (sequential model) and through the ABI; creation/drop event log checked offline",
             "60 (quick) / 1500 (thorough) random scenarios over 39 operation kinds plus generated limit interfaces (1..64 arguments, 70 methods); results, recorded arguments, object lifetimes "
             "(incl. abandoned futures) and panic messages must agree between the two runs. Release, debug and Miri builds.", "DESIGN.md §5 C09"),
    "C10": c("va", "runtime monitoring: all (caller, implementation) version pairs of generated interface families against the reference projection; reply-framing hook monitor",
             "Each pair runs in its own process; arguments seen by the implementation, values returned to the caller, every hop of closure arguments, returned closures and future outputs are compared "
             "with the model's projection through min(i,j); methods on one side only (also in nested interfaces) and seven incompatible signature changes.", "DESIGN.md §5 C10"),
    "C11": c("va", "runtime monitoring: separately compiled plugins (different compiler, randomised layouts) observed through the real dlopen path; single-fact mutation of layout descriptions",
             "Values observed by the plugin, by-reference decisions versus exported layout facts, and completeness of Schema::layout_compatible under every single-fact change.", "DESIGN.md §5 C11"),
    "C12": c("vh", "runtime monitoring: independent schema-driven reader over real bytes",
             "For every subject and version the reported schema is interpreted against bytes of generated values; leaf-token streams must agree and all bytes be consumed.", "DESIGN.md §5 C12"),
    "C13": c("vh", "runtime monitoring: exhaustive small-tree enumeration + random trees, round trip at formats 0/1/2, mutation completeness of diff_schema",
             "All schema trees up to 3/4 nodes, random trees to 60 nodes, real schemas; independent format-0 encoder; every single wire-relevant mutation must be reported.", "DESIGN.md §5 C13"),
    "C14": c("vh", "runtime monitoring: exhaustive single-byte tampering and truncation of encrypted files",
             "Every byte position x every replacement value for small streams, every truncation, key and password variations; every load must fail cleanly.", "DESIGN.md §5 C14"),
    "C15": c("va", "runtime monitoring: run histories of the ledger over labelled interface revisions in temporary directories",
             "Unchanged, compatible and breaking revision sequences (one breaking revision per kind and position incl. closure / future signatures; generated families with version gaps); "
             "verdict per run compared with the label; recorded files monitored.", "DESIGN.md §5 C15"),
    "C16": c("vc", "runtime monitoring: concurrency stress with hook-injected delays, conservation monitor, deadlock watchdog (gdb), ThreadSanitizer and Miri",
             "First-use creation races on never-used interface types from 2-64 threads, shared-connection calls, nested creation through closure arguments, tight-loop cached creation of different "
             "interfaces, Send-only sharing probe; results versus sequential model, ticket conservation.", "DESIGN.md §5 C16"),
    "C17": c("vh", "runtime monitoring: structural invariant walk + random command histories under catch_unwind",
             "introspect_len versus fetchable children on every node of generated values; 70k random navigation commands with flat-index consistency.", "DESIGN.md §5 C17"),
    "C18": c("vh", "runtime monitoring: downgrade oracle over abi-writable evolution families",
             "Values of definition j written at every version k<=j, compared with the reference encoding and read by definition k; packed decision at older versions checked against the wire size.", "DESIGN.md §5 C18"),
}
