"""Static plan: build flavours, crates, and what each property's check runs per tier."""
import os, subprocess, json

CRATES = {
    "vh": dict(workspace="harness", package="vh", bin="vh", features=[], thorough_features=["extra_zoo"]),
    "vabi": dict(workspace="harness", package="vabi", bin="va", features=[], thorough_features=["extra_zoo"]),
    "vconc": dict(workspace="harness", package="vconc", bin="vc", features=[]),
    # cdylib loaded by the host through AbiConnection::load_shared_library (C11, C16)
    "vplugin": dict(workspace="plugin", package="vplugin", bin="libvplugin.so", features=[]),
}

BUILDS = {
    # stable release: the only build in which size arithmetic wraps (overflow-checks off)
    "release": dict(target_dir="q", args=["--release"], bin_subdir="release"),
    # stable dev profile: overflow checks and debug_assert on
    "debug": dict(target_dir="q", args=[], bin_subdir="debug"),
}

# Miri: undefined-behaviour and data-race interpreter (no process spawning: checks run in-process)
BUILDS["miri"] = dict(target_dir="miri", runner="miri", sanitizer=True, toolchain=["+nightly"], args=[], run_env={"MIRIFLAGS": "-Zmiri-disable-isolation", "VH_INPROC": "1"})
# AddressSanitizer on a release build (wrap-on-overflow semantics); leak detection off: savefile leaks deliberately on some error paths
BUILDS["asan"] = dict(target_dir="asan", sanitizer=True, toolchain=["+nightly"], args=["--release", "--target", "x86_64-unknown-linux-gnu"], bin_subdir="x86_64-unknown-linux-gnu/release",
                      env={"RUSTFLAGS": "-Zsanitizer=address -Cforce-frame-pointers=yes"}, run_env={"ASAN_OPTIONS": "detect_leaks=0:abort_on_error=1:halt_on_error=1:allocator_may_return_null=1:max_allocation_size_mb=3000", "VH_SANITIZER": "asan"})
# ThreadSanitizer needs an instrumented std
BUILDS["tsan"] = dict(target_dir="tsan", sanitizer=True, toolchain=["+nightly"], args=["--release", "-Zbuild-std", "--target", "x86_64-unknown-linux-gnu"], bin_subdir="x86_64-unknown-linux-gnu/release",
                      single_package=True, env={"RUSTFLAGS": "-Zsanitizer=thread"}, run_env={"TSAN_OPTIONS": "halt_on_error=1:exitcode=66", "VH_SANITIZER": "tsan"})
# valgrind memcheck on the plain release binary (reaches ring / bzip2, which Miri cannot enter)
BUILDS["memcheck"] = dict(target_dir="q", sanitizer=True, args=["--release"], bin_subdir="release", wrapper=["valgrind", "-q", "--error-exitcode=99", "--errors-for-leak-kinds=none", "--undef-value-errors=yes"],
                          run_env={"VH_INPROC": "1", "VH_SANITIZER": "memcheck"})

# plugin flavours: a different compiler (nightly) and randomised struct layouts
for _seed in range(1, 9):
    BUILDS["plug%d" % _seed] = dict(target_dir="plug%d" % _seed, toolchain=["+nightly"], args=["--release"], bin_subdir="release",
                                    env={"RUSTFLAGS": "-Zrandomize-layout -Zlayout-seed=%d" % _seed})
# also randomises the layout of std types (Vec / String field order): exercises the VecOrStringLayout probes
BUILDS["plugstd"] = dict(target_dir="plugstd", toolchain=["+nightly"], args=["--release", "-Zbuild-std", "--target", "x86_64-unknown-linux-gnu"],
                         bin_subdir="x86_64-unknown-linux-gnu/release", env={"RUSTFLAGS": "-Zrandomize-layout -Zlayout-seed=11"})
BUILDS["plug198"] = dict(target_dir="plug198", toolchain=["+1.98.1"], args=["--release"], bin_subdir="release", env={})

COMMON_ASSUMPTIONS = [
    "the reference model (harness/vcore/src/model.rs) is a correct reading of the documented savefile wire format",
    "rustc / std behave as documented; x86-64 little-endian Linux",
    "only executions actually produced by the workloads are covered; a clean run is 'held on these executions', not a proof",
]

RULE_TYPES = ("subjects = library-supported types + committed generated zoo (gen/zoo.py --seed 0: derived structs/enums incl. "
              "repr variants, generics, explicit discriminants, ignored fields) + every version of every generated evolution family"
              " (+ a fresh zoo generated from VERIF_SEED in the thorough tier); values generated boundary-biased from VERIF_SEED. ")

PROPS = {
    "C01": dict(
        level="exploration",
        rule=RULE_TYPES + "One evaluation = one save+load of one value in one container (plain / noschema / bzip2 / CryptoWriter in memory / "
             "save_encrypted_file on disk) compared against the reference-normalised value, with consumed bytes checked. "
             "distinct_nontrivial = distinct (type, container, value-class) triples, value-class = coarse structural fingerprint "
             "(lengths bucketed 0/1/few/mid/64/big, sign/zero of numbers, enum variant names).",
        runs=dict(quick=[dict(build="release", shards=4), dict(build="debug", shards=4), dict(build="miri", shards=8, timeout=900)],
                  thorough=[dict(build="release", shards=16), dict(build="debug", shards=16), dict(build="miri", shards=16, timeout=3000), dict(build="asan", shards=8)]),
        required_counters=dict(quick=dict(roundtrip_ok=2000, crypto_block_sweep=50, chunk_sweep=50)),
        fresh_zoo=True,
    ),
    "C02": dict(
        level="exploration",
        rule=RULE_TYPES + "One evaluation = one comparison of real output with the independent reference encoder: bare_serialize bytes, "
             "save_noschema file (16 byte header + payload), save file (header + schema + payload suffix), a file assembled by the reference "
             "encoder alone loaded with load_noschema, and re-save determinism. Hash containers are compared after reference decoding "
             "(order-insensitive) with equal length. distinct_nontrivial = distinct (type, value-class) pairs.",
        runs=dict(quick=[dict(build="release", shards=4)], thorough=[dict(build="release", shards=16), dict(build="debug", shards=16)]),
        required_counters=dict(quick=dict(payload_bytes_equal=1000, reference_file_loaded=1000)),
        fresh_zoo=True,
    ),
    "C03": dict(
        level="exploration",
        rule="subjects = generated evolution families (structs and enums evolved over 2-5 versions by: add field with Default / default_val / default_fn, "
             "remove field as Removed or AbiRemoved, change field type with From or a named conversion, append enum variant, edits at random positions, "
             "nested families, packed repr(C) families). One evaluation = value of definition i saved at version i (plain / noschema / bzip2) and loaded by "
             "definition j>=i at version j; expected value = reference decoder reading the version-i bytes with definition j's declared shape. "
             "distinct_nontrivial = distinct (family, i, j, container, value-class).",
        runs=dict(quick=[dict(build="release", shards=4), dict(build="debug", shards=2)], thorough=[dict(build="release", shards=16), dict(build="debug", shards=16)]),
        required_counters=dict(quick=dict(cross_version_ok=500)),
        fresh_zoo=True,
    ),
    "C04": dict(
        level="exploration",
        rule=RULE_TYPES + "Evaluations: (a) every Packed::repr_c_optimization_safe(v) = yes answer, for every version v of every subject, is checked against "
             "size_of::<T>() == fixed wire size and raw memory image == reference encoding for generated values; (b) for Vec<T>, Box<[T]>, Arc<[T]>, &[T], [T;3], "
             "ArrayVec<T,5> the container bytes are compared with length prefix + concatenated single-element bytes and the bulk-read elements with element-wise "
             "reads; (c) for families, elements written by definition i are read in bulk by definition j. distinct_nontrivial = distinct (type, version, "
             "container, packed decision).",
        runs=dict(quick=[dict(build="release", shards=4), dict(build="debug", shards=2), dict(build="miri", shards=16, timeout=900)],
                  thorough=[dict(build="release", shards=16), dict(build="debug", shards=16), dict(build="miri", shards=16, timeout=3000), dict(build="asan", shards=8)]),
        required_counters=dict(quick=dict(decisions_packed_yes=30, image_equals_encoding=100, bulk_read_equals_elementwise=500)),
        fresh_zoo=True,
    ),
    "C05": dict(
        level="exploration",
        rule=RULE_TYPES + "All ordered pairs (type saved, type loaded) over the subjects: a file saved from T is loaded as U. The oracle classifies each pair from the "
             "harness' own shapes at the file's version: identical layout modulo struct/field names => must load (and equal the reference decoding); "
             "different byte grammar => must fail with IncompatibleSchema; same bytes but different node kind (newtypes etc.) => no verdict. Plus all "
             "single-byte corruptions (9 values each) of the 16 header bytes for every 7th type, with the reader position checked. "
             "distinct_nontrivial = distinct (saved type, loaded type, verdict) + distinct (type, header byte, replacement).",
        runs=dict(quick=[dict(build="release", shards=8)], thorough=[dict(build="release", shards=16), dict(build="debug", shards=16)]),
        required_counters=dict(quick=dict(rejected_with_schema_error=20000, accepted_and_value_as_reference=300, bad_header_rejected_early=1000)),
        fresh_zoo=True,
    ),
    "C06": dict(
        level="exploration",
        rule=RULE_TYPES + "Inputs per type: structure-aware mutants of valid encodings (every length prefix -> 0, 1, n+-1, 2^31, 2^61+1, 2^63, 2^64-1 and counts "
             "that make count*element_size wrap; option/result tags, enum discriminants, bool and char bytes -> invalid values; special payloads), random byte "
             "and bit changes, truncation+extension, pure random bytes, and mutated schema sections; fed to bare_deserialize, load_noschema and load in "
             "address-space-limited child processes (one per type, every input journalled before use). Verdict per input: error or value; a value is inspected "
             "lengths-first (claimed elements <= input bytes), then bit patterns of bool/char/enum tags, then walked and dropped. distinct_nontrivial = distinct "
             "(type, entry point, mutation class, outcome kind).",
        runs=dict(quick=[dict(build="release", shards=16, timeout=1500), dict(build="debug", shards=8, timeout=1500), dict(build="miri", shards=16, timeout=900)],
                  thorough=[dict(build="release", shards=16, timeout=6000), dict(build="debug", shards=16, timeout=6000), dict(build="asan", shards=16, timeout=6000), dict(build="miri", shards=16, timeout=3000)]),
        required_counters=dict(quick=dict(returned_error=5000, returned_value=3000)),
        fresh_zoo=True,
    ),
    "C07": dict(
        level="fault_enumeration",
        rule=RULE_TYPES + "For each (type, value, container in plain/noschema/bzip2/CryptoWriter/encrypted file) the saved file (<= 6000 bytes) is cut at EVERY "
             "offset 0..len-1 and loaded; multi-chunk encrypted streams (100 kB, 250 kB) are cut around every frame boundary plus random cuts. A prefix must "
             "be rejected, or (bzip2 only, when just the 11 byte end-of-stream trailer is missing) load to the original value. "
             "distinct_nontrivial = distinct (type, container, error kind, sixteenth of the file in which the cut fell).",
        runs=dict(quick=[dict(build="release", shards=8)], thorough=[dict(build="release", shards=16), dict(build="debug", shards=16), dict(build="asan", shards=8), dict(build="memcheck", shards=16, timeout=3000, args=["--type", "Vec<"])]),
        required_counters=dict(quick=dict(cuts=50000, files_exhaustively_truncated=300, crypto_frames=4)),
        exhaustive_counter="files_exhaustively_truncated",
        fresh_zoo=True,
    ),
    "C08": dict(
        level="fault_enumeration",
        rule=RULE_TYPES + "For each (type, value, container in plain/bzip2/CryptoWriter) with output <= 3000 bytes: the writer fails hard at EVERY accepted-byte "
             "offset (error kinds Other/BrokenPipe/UnexpectedEof/PermissionDenied, chunk limits 1/5/64/unlimited) and the reader at EVERY offset; 8 short-write / "
             "Interrupted schedules for writer and reader without hard fault. Oracles: save/load returns Err (no panic, no Ok), accepted bytes are a prefix of the "
             "fault-free output (encrypted: complete chunks decrypted by an independent ring-based decryptor are a prefix of the fault-free plaintext), chunking "
             "never changes bytes or values. distinct_nontrivial = distinct (type, container, fault kind, 1/32 of the stream) + distinct schedules.",
        runs=dict(quick=[dict(build="release", shards=8)], thorough=[dict(build="release", shards=16), dict(build="debug", shards=16)]),
        required_counters=dict(quick=dict(write_fault_surfaced=10000, read_fault_surfaced=10000, write_chunking_independent=300, read_chunking_independent=300)),
        exhaustive_counter="write_fault_points",
        fresh_zoo=True,
    ),
    "C09": dict(
        level="exploration",
        rule="Scripted scenarios (40-60 random steps over 39 operation kinds of interface `Plain`: plain data by value / by reference, &str, slices, tuples, "
             "Option, Result, &'static str, 7-argument mixed call, &dyn Fn, &mut dyn FnMut, Box<dyn Fn> (consumed and kept), returned closures, boxed trait "
             "objects in both directions, borrowed trait objects, Result<Box<dyn Trait>>, boxed futures polled to completion and futures abandoned after one poll, nested callbacks, Pin<&mut Self>, "
             "panics with literal / formatted / String / non-string payloads and a panic raised in a caller-side callback; argument sizes straddling the 64 byte "
             "inline buffer) are run once against the implementation directly (sequential model) and once through AbiConnection::from_boxed_trait. Compared: every "
             "result line, the arguments the implementation recorded, and the creation/drop log of every tracked object (exactly one drop, no use after drop). "
             "Generated limit interfaces (gen/wide.py): `Wide` with methods of 1, 2, 31, 32, 33, 63 and 64 arguments (references in first, middle and last position) "
             "and `Many` with 70 methods, driven the same two ways. distinct_nontrivial = distinct (operation, result-size class).",
        runs=dict(quick=[dict(build="release", crate="vabi", shards=4), dict(build="debug", crate="vabi", shards=4), dict(build="miri", crate="vabi", shards=8, timeout=900)],
                  thorough=[dict(build="release", crate="vabi", shards=16), dict(build="debug", crate="vabi", shards=16), dict(build="miri", crate="vabi", shards=16, timeout=3000), dict(build="asan", crate="vabi", shards=8)]),
        required_counters=dict(quick=dict(results_equal=3000, argument_records_equal=3000, lifetime_logs_clean=100, tracked_objects=1000, wide_scenarios=8)),
    ),
    "C10": dict(
        level="exploration",
        rule="Interfaces generated from the abi-writable evolution families of the zoo (one exported trait per family version: echo(T)->T, take_ref(&T), "
             "give()->T, echo_vec(Vec<T>), opt_res(Option<T>)->Result<T,String>, via_cb(T, &dyn Fn(T)->T)->T, fut(T)->Pin<Box<dyn Future<Output=T>>>, mk_cb()->Box<dyn Fn(T)->T>). Every ordered pair (caller version i, implementation version j) is connected "
             "with from_boxed_trait_for_test in its own child process; generated values are sent and returned; the argument the implementation records and the "
             "value the caller receives are compared with the reference model's projection through version min(i,j). A hook event per reply checks that the "
             "caller consumed exactly the reply's bytes. Every hop of a closure call (argument to the implementation, closure argument back to the caller, closure result, final result) and the output "
             "of a returned future is compared with the projection through min(i,j). Plus a hand-written interface family for methods present on one side only (also in "
             "a nested Box<dyn Trait> interface) and seven incompatible signature changes (argument count/type, return type, closure argument/return type, boxed closure "
             "return type, future output type) that must be rejected at connection time, and a pair of #[repr(C)] definitions whose versions have structurally identical memory layouts "
             "with different field meaning (must be seen through the negotiated version, not through a raw pointer). "
             "distinct_nontrivial = distinct (family, i, j, method, value-class).",
        runs=dict(quick=[dict(build="release", crate="vabi", shards=8), dict(build="debug", crate="vabi", shards=4), dict(build="miri", crate="vabi", shards=13, timeout=900)],
                  thorough=[dict(build="release", crate="vabi", shards=16), dict(build="debug", crate="vabi", shards=16), dict(build="miri", crate="vabi", shards=16, timeout=3000)]),
        required_counters=dict(quick=dict(arguments_as_expected=500, returns_as_expected=500, cross_version_pairs=10, reply_hook_events=500, incompatible_signature_rejected=7, missing_method_panics_with_name=2, closure_hops_as_expected=100, future_outputs_as_expected=100, returned_closures_as_expected=100, aliasing_layouts_seen_through_negotiated_version=50)),
        fresh_zoo=True,
    ),
    "C13": dict(
        level="exploration",
        rule="Schema trees (the harness' own mirror type converted to savefile::Schema): (a) EXHAUSTIVE enumeration of all trees with up to 3 (quick) / 4 (thorough) nodes "
             "over 12 leaf kinds, 7 unary kinds, structs (two annotation variants) and enums (two width/repr variants); (b) random trees up to 60 nodes including trait, "
             "closure and future nodes; (c) the real schemas of every type under test at every version. Each tree: write+read at formats 2 and 1 (exact; the loss of "
             "receiver kind / async flag at format 1 is a recorded finding with its own signature), read of format-0 bytes produced by an independent encoder (== tree minus layout annotations), "
             "diff_schema(s,s)==None, and every single wire-relevant mutation at every data node (primitive kind, field/variant added/removed/reordered, variant name, "
             "discriminant, discriminant width, array length, option/vector wrapping) must be reported in both directions; every ordered pair of the 15 fixed-size "
             "primitive kinds is compared bare and nested (vector element, option, struct field). distinct_nontrivial = distinct trees.",
        runs=dict(quick=[dict(build="release", shards=4)], thorough=[dict(build="release", shards=16), dict(build="debug", shards=8)]),
        required_counters=dict(quick=dict(enumerated_trees_checked=1000, roundtrip_format2_ok=2000, roundtrip_format1_ok=2000, format0_read_ok=2000, mutation_detected=20000, real_schemas_checked=200, primitive_pairs_exhaustive=1)),
        exhaustive_counter="enumerated_trees_checked",
        fresh_zoo=True,
    ),
    "C15": dict(
        level="exploration",
        rule="Histories of verify_compatiblity runs in fresh temporary directories: unchanged interfaces (plain, &mut self / Pin<&mut Self> receivers with closures and "
             "futures, #[async_trait], Send+Sync) run 2, 3 and 6 times; base -> compatible (+method, reordered) -> breaking (method removed, argument count, argument "
             "type, return type) sequences; a richer base (closure, boxed closure, future, method without arguments) with one breaking variant per kind and position "
             "(first/last method removed, argument appended/removed, last argument type, return types, return/argument type and argument count of closure arguments, "
             "future output type), each also after a compatible revision was recorded in between; generated interface families (argument/return types evolving over "
             "versions) in order, repeated and revisited, newest-first, newest from an empty directory repeated, and with version gaps. "
             "Each run's verdict is compared with the step label; recorded files must never change or disappear. distinct_nontrivial = distinct (history, step).",
        runs=dict(quick=[dict(build="release", crate="vabi", shards=4)], thorough=[dict(build="release", crate="vabi", shards=8), dict(build="debug", crate="vabi", shards=8)]),
        required_counters=dict(quick=dict(ledger_runs=300, compatible_revision_accepted=250, breaking_revision_rejected=36)),
        fresh_zoo=True,
    ),
    "C16": dict(
        level="exploration",
        rule="Trials in child processes (fresh global caches): 2/4/16/64 threads released from a barrier race to create connections for an interface type that has never "
             "been used in the process (24 generated interface types per process, each with its own closure-wrapper trait), then call through their own connection and "
             "a shared one: plain calls, calls with a closure argument (the implementation creates a connection for it), boxed trait objects returned, borrowed trait "
             "objects passed in, and an atomic ticket counter on the shared connection. The verif_hooks callback records the order in which threads pass the points inside "
             "connection creation and injects seeded sleeps/yields between them. Then, with every interface cached, 8 threads create connections for *different* interfaces in tight "
             "loops (each result identifies its interface). A probe asks whether AbiConnection<dyn T> is declared Sync for a Send-only interface; if so the shared-"
             "connection workload is run against a Cell-based implementation. Oracles: every result equals the sequential model, tickets are exactly 0..n-1, no panic, "
             "no deadlock (watchdog + gdb stack dump). distinct_nontrivial = distinct observed orderings of (thread, hook point) events.",
        runs=dict(quick=[dict(build="release", crate="vconc", shards=6), dict(build="tsan", crate="vconc", shards=4),
                         dict(build="miri", crate="vconc", shards=4, timeout=900, env={"MIRIFLAGS": "-Zmiri-disable-isolation -Zmiri-many-seeds=0..4"})],
                  thorough=[dict(build="release", crate="vconc", shards=16), dict(build="tsan", crate="vconc", shards=16),
                            dict(build="miri", crate="vconc", shards=16, timeout=3000, env={"MIRIFLAGS": "-Zmiri-disable-isolation -Zmiri-many-seeds=0..16"})]),
        required_counters=dict(quick=dict(trials=100, hook_events=20000, template_cache_misses=100, tickets_drawn=10000, mixed_cached_creations=100000)),
    ),
    "C11": dict(
        level="exploration",
        rule="(a) observation: cdylib plugins compiled by a DIFFERENT compiler (nightly 1.97 vs stable 1.95 host; thorough also 1.98.1 and -Zbuild-std) with "
             "-Zrandomize-layout and several layout seeds are loaded with AbiConnection::load_shared_library; 21 methods with by-reference / slice / &str / Vec / "
             "by-value arguments of repr(Rust) structs (mixed field sizes, nested, containing String/Vec), a repr(u8) data enum, a packed repr(C) struct and tuples are "
             "called with generated values; the plugin returns its Debug rendering of what it observed, compared with the host's; for every argument "
             "get_arg_passable_by_ref is compared with layout facts (size, alignment, every field offset, Vec word order) exported by both sides. "
             "(b) decision: random fully-known layout descriptions and EVERY single-fact change of them (size, alignment, each offset, field/variant count, discriminant "
             "width/value, explicit repr, Vec/String layout, array length, each fact replaced by unknown) must be reported incompatible in both directions by "
             "Schema::layout_compatible. distinct_nontrivial = distinct (plugin, method, argument, by-ref decision, layouts differ) + distinct base descriptions.",
        runs=dict(quick=[dict(build="release", crate="vabi", shards=2, plugins=["plug1", "plug2"])],
                  thorough=[dict(build="release", crate="vabi", shards=8, plugins=["plug1", "plug2", "plug3", "plug4", "plug5", "plug6", "plugstd", "plug198"]),
                            dict(build="debug", crate="vabi", shards=2, plugins=["plug1", "plug7"])]),
        required_counters=dict(quick=dict(plugins_loaded=2, observed_equal=1000, single_fact_changes=5000, types_with_different_layout_in_plugin=2, arguments_passed_by_reference=4, arguments_serialized=4)),
        subject_filter=False,
    ),
    "C12": dict(
        level="exploration",
        rule=RULE_TYPES + "For every subject and every version 0..=current: get_schema::<T>(v) is interpreted by an independent schema-driven reader over the bytes "
             "written for generated values; it must consume all bytes and produce the same leaf-token stream (primitive widths, string lengths, element counts, "
             "option tags, discriminants) as the value has. Recursion markers in these (non-recursive) types are violations. "
             "distinct_nontrivial = distinct (type, version, value-class).",
        runs=dict(quick=[dict(build="release", shards=4)], thorough=[dict(build="release", shards=16)]),
        required_counters=dict(quick=dict(schema_parsed_bytes_completely=1500)),
        fresh_zoo=True,
    ),
    "C14": dict(
        level="fault_enumeration",
        rule="Encrypted streams (CryptoWriter in memory) and files (save_encrypted_file) of 7 types x generated values: for streams <= 120 bytes (quick) / <= 300 bytes "
             "(thorough) EVERY byte position x EVERY other byte value; larger ones every position x 5 replacements; every truncation length; key bit flips; "
             "wrong passwords (prefix, suffix, case, empty, random); a two-chunk stream attacked in nonce, both length fields, bodies and tags. Every load must "
             "be Err. distinct_nontrivial = distinct (type, api, region of the modification, error kind).",
        runs=dict(quick=[dict(build="release", shards=8)], thorough=[dict(build="release", shards=16), dict(build="debug", shards=8), dict(build="asan", shards=8)]),
        required_counters=dict(quick=dict(byte_replacements=50000, truncations=1000, wrong_passwords=50, wrong_keys=50)),
        exhaustive_counter="streams_with_every_byte_every_value",
    ),
    "C17": dict(
        level="exploration",
        rule=RULE_TYPES + "For generated values of every introspectable subject: recursive walk (depth <= 4, <= 12 children per node) comparing introspect_len() with "
             "the number of consecutively fetchable children (probing 8 indices past the first gap); then random Introspector command sequences (1-30 commands "
             "mixing ExpandElement / SelectNth / Up / Nothing with valid and invalid depths, keys, disambiguators, indices; child limits 0/1/2/5/unlimited) under "
             "catch_unwind, checking total_index(i) is Some exactly for i < total_len() and Display. distinct_nontrivial = distinct (type, depth, node kind, fan-out) "
             "+ distinct (type, outcome, frames, limit).",
        runs=dict(quick=[dict(build="release", shards=4), dict(build="debug", shards=4)], thorough=[dict(build="release", shards=16), dict(build="debug", shards=16), dict(build="miri", shards=16, timeout=3000)]),
        required_counters=dict(quick=dict(commands=20000, len_matches_children=2000, flat_index_consistent=5000)),
        fresh_zoo=True,
    ),
    "C18": dict(
        level="exploration",
        rule="subjects = generated evolution families restricted to the edits an ABI peer can write (field addition, AbiRemoved removal with and without a value "
             "constructor, appended enum variants; packed repr(C) families included). One evaluation = value of definition j written with bare_serialize at version "
             "k<=j, bytes compared with the reference encoding at version k, then read by definition k; plus the packed decision of definition j at version k "
             "checked against the wire size at k. distinct_nontrivial = distinct (family, j, k, value-class).",
        runs=dict(quick=[dict(build="release", shards=2), dict(build="debug", shards=2)], thorough=[dict(build="release", shards=16), dict(build="debug", shards=16), dict(build="miri", shards=8, timeout=3000)]),
        required_counters=dict(quick=dict(cross_version_ok=80)),
        fresh_zoo=True,
    ),
}


def build_cmd(flavor, crate, tier):
    """cargo command line for one build flavour. All harness crates are built together so that
    feature unification (and therefore every shared artefact) is identical for every check."""
    spec = BUILDS[flavor]
    cmd = ["cargo"] + spec.get("toolchain", []) + ["build", "--offline"]
    ws = CRATES[crate]["workspace"]
    if ws == "harness" and not spec.get("single_package"):
        cmd += ["-p", "vh", "-p", "vabi", "-p", "vconc"]
        if tier == "thorough":
            cmd += ["--features", "vh/extra_zoo,vabi/extra_zoo"]
    else:
        cmd += ["-p", CRATES[crate]["package"]]
    return cmd + spec.get("args", [])


import time


def build(VERIF, flavor, crate, tier, run, log):
    """returns (ok, binary path or error text)"""
    spec = BUILDS[flavor]
    ws = os.path.join(VERIF, spec.get("workspace", {}).get(crate, CRATES[crate]["workspace"]))
    target = os.path.join(VERIF, "target", spec["target_dir"])
    if spec.get("runner") == "miri":
        # there is no `cargo miri build`: a no-op run builds the binary; shards then use `cargo miri run`
        cmd = ["cargo"] + spec.get("toolchain", []) + ["miri", "run", "--offline", "-p", CRATES[crate]["package"], "--bin", CRATES[crate]["bin"], "--", "noop"]
        env = {"CARGO_TARGET_DIR": target}
        env.update(spec.get("run_env", {}))
        t0 = time.time()
        rc, out = run(cmd, cwd=ws, env=env, timeout=3600)
        if rc != 0:
            return False, "miri build %s failed (rc=%s):\n%s" % (crate, rc, out[-4000:])
        log("[build] %s/%s ok in %.0fs" % (flavor, crate, time.time() - t0))
        return True, "MIRI:" + crate
    cmd = build_cmd(flavor, crate, tier)
    env = {"CARGO_TARGET_DIR": target}
    env.update(spec.get("env", {}))
    t0 = time.time()
    rc, out = run(cmd, cwd=ws, env=env, timeout=3600)
    dt = time.time() - t0
    if rc != 0:
        return False, "build %s/%s failed (rc=%s) after %.0fs:\n%s" % (flavor, crate, rc, dt, out[-4000:])
    sub = spec.get("bin_subdir", "release")
    binp = os.path.join(target, sub, CRATES[crate]["bin"])
    if not os.path.exists(binp):
        return False, "binary %s missing after build" % binp
    log("[build] %s/%s ok in %.0fs" % (flavor, crate, dt))
    return True, binp




def prepare_fresh_zoo(verif, seed, log):
    """Thorough tier: generate an additional zoo from VERIF_SEED into vcore/src/zoo_extra.rs."""
    out = os.path.join(verif, "harness", "vcore", "src", "zoo_extra.rs")
    cmd = ["python3", os.path.join(verif, "gen", "zoo.py"), "--seed", str(1000 + seed), "--types", "120", "--families", "40", "--out", out, "--module", "zoo_extra", "--no-curated",
           "--abi-out", os.path.join(verif, "harness", "vabi", "src", "fam_gen_extra.rs")]
    p = subprocess.run(cmd, stdout=subprocess.PIPE, stderr=subprocess.STDOUT, text=True)
    if p.returncode != 0:
        return False, p.stdout[-2000:]
    log("[zoo] fresh zoo: " + p.stdout.strip()[:300])
    return True, ""
