#!/usr/bin/env python3
"""Apply a seeded change to /repo, run some checks, undo it.

usage: lib/seedtest.py seeded/<id> C01[,C02..] [--builds release,debug] [--tier quick]

Writes seeded/<id>/result.json: per check exit code, VIOLATION / KNOWN-FINDING lines, wall time.
The patch is always reverted (git -C /repo checkout -- .), also on Ctrl-C.
"""
import json, os, subprocess, sys, time

VERIF = os.path.dirname(os.path.dirname(os.path.abspath(__file__)))


def main():
    d = sys.argv[1].rstrip("/")
    checks = sys.argv[2].split(",")
    rest = sys.argv[3:]
    patch = os.path.join(VERIF, d, "patch.diff") if not os.path.isabs(d) else os.path.join(d, "patch.diff")
    st = subprocess.run(["git", "-C", "/repo", "status", "--porcelain", "--untracked-files=no"], capture_output=True, text=True).stdout.strip()
    if st:
        print("refusing: /repo has local changes:\n" + st)
        sys.exit(2)
    subprocess.run(["git", "-C", "/repo", "apply", patch], check=True)
    results = {}
    rdir = os.path.join(VERIF, "replays")
    before = set(os.path.join(a, f) for a, _, fs in os.walk(rdir) for f in fs)
    try:
        for c in checks:
            t0 = time.time()
            p = subprocess.run([os.path.join(VERIF, "check"), c] + rest, capture_output=True, text=True)
            lines = [l for l in p.stdout.splitlines() if l.startswith(("VIOLATION", "KNOWN-FINDING", "INCONCLUSIVE", "[" + c + "]"))]
            results[c] = dict(rc=p.returncode, wall_s=round(time.time() - t0, 1), lines=lines[:40], args=rest)
            print("%s rc=%d (%.0fs)" % (c, p.returncode, time.time() - t0))
            for l in lines[:12]:
                print("   " + l[:300])
    finally:
        subprocess.run(["git", "-C", "/repo", "checkout", "--", "."], check=True)
    # replay files produced against the patched tree belong to the seeded change, not to /verif/replays
    after = set(os.path.join(a, f) for a, _, fs in os.walk(rdir) for f in fs)
    dest = os.path.join(os.path.dirname(patch), "replays")
    for k, f in enumerate(sorted(after - before)):
        if k >= 3:
            os.remove(f)
            continue
        os.makedirs(dest, exist_ok=True)
        os.replace(f, os.path.join(dest, os.path.basename(os.path.dirname(f)) + "_" + os.path.basename(f)))
    rp = os.path.join(os.path.dirname(patch), "result.json")
    old = {}
    if os.path.exists(rp):
        try:
            old = json.load(open(rp))
        except Exception:
            old = {}
    old.update(results)
    json.dump(old, open(rp, "w"), indent=1)


if __name__ == "__main__":
    main()
