#!/usr/bin/env python3
"""Assemble seeded/<id>/meta.json and seeded/README.md from the confirmation logs
(lib/confirm_seed.sh), the check results (lib/seedtest.py -> result.json) and the summaries below."""
import json, os, re, glob

VERIF = os.path.dirname(os.path.dirname(os.path.abspath(__file__)))
SUMMARY = {
    "C01-A": "derive: contiguity test of a run of packed fields collapsed to first/last address; rustc reorders the interior of `bool,u8,bool,u8` runs -> fields swapped silently",
    "C01-B": "ArrayString<C> loader rejects strings of exactly C bytes (`l >= C`)",
    "C02-A": "Packed for (T1,T2,T3) no longer pins the order of .0/.1; reordered tuples such as (u8,u16,u8) are copied in memory order",
    "C02-B": "implicit discriminant width: 256 variants get 2 bytes (`<= u8::MAX`)",
    "C03-A": "derive: min_safe_version of the packed decision taken from the last versioned field only; bulk reads of older data mis-framed",
    "C03-B": "derive: closed version range N..M loses its lower bound on load; files older than N shift all following fields",
    "C04-A": "derive: repr(i16) enums get a 1 byte discriminant but are still declared bulk-copyable (2 bytes per element)",
    "C04-B": "derive: struct with a removed field is bulk-copyable from the last version in which the field was still on the wire",
    "C05-A": "diff_array compares the in-memory element schema with itself: [u32;4] data loads as [u8;4]",
    "C05-B": "magic check uses starts_with(\"savefile\"): the ninth byte is not checked",
    "C06-A": "BitVec loader checks the bit count against the declared byte count instead of the allocated words",
    "C06-B": "bulk Vec read: unchecked `elem_size * num_elems` (wraps in release)",
    "C07-A": "ArrayString loader uses take(l).read_to_string: a truncated file yields a shorter string",
    "C07-B": "CryptoReader frees its buffer at EOF but keeps the offset: a file cut at a frame boundary panics",
    "C08-A": "CryptoReader drops the Interrupted retry inside the 8 byte size header",
    "C08-B": "save_compressed flushes instead of try_finish: a fault in the bzip2 trailer is swallowed",
    "C09-A": "argument limit off by one: methods with exactly 64 arguments are refused",
    "C09-B": "boxed futures received over the ABI are wrapped NotOwned: the implementation's future is never dropped",
    "C10-A": "derive: min_safe_version from the last versioned field only (packed struct written as raw memory at an intermediate negotiated version)",
    "C10-B": "closure helper traits exported with version 0: closure arguments/results always travel in version-0 format",
    "C11-A": "SchemaStruct::layout_compatible compares the alignment with itself",
    "C11-B": "String layout (ptr/cap/len order) no longer compared once both are known",
    "C12-A": "derive: schema discriminant = position in the version-filtered variant list instead of the declaration index",
    "C12-B": "Schema::new_tuple3 takes the third field's schema from T2",
    "C13-A": "diff_primitive compares display names: canary1 and u32 are both \"u32\"",
    "C13-B": "format-0 enum sections decode with discriminant_size 0",
    "C14-A": "nonce bytes 4..8 are never used: modifications of file bytes 4..7 go unnoticed",
    "C14-B": "frame length below the tag size panics (resize before the authentication result is checked)",
    "C15-A": "argument-count check folded into the argument loop: appended arguments are accepted",
    "C15-B": "missing ledger files are written with the latest definition instead of the definition of their version",
    "C16-A": "torn lock-free 'most recent template' shortcut: a connection can pick up another interface's template under concurrency",
    "C16-B": "`unsafe impl Sync for AbiConnection<T> where T: Send`: Send-only interfaces become shareable",
    "C17-A": "derived tuple structs count ignored fields in introspect_len",
    "C17-B": "total_index bookkeeping adds the whole frame length behind a nested selection",
    "C18-A": "min_safe_version off by one for removed fields: packed path taken at the last version that still has the field",
    "C18-B": "derive: a removed field is written before the deferred run of packed fields that precedes it",
}


REVERTS = {
    "33dcc44": ("C10", "revert: future helper interface exported at version 0 again"),
    "e1e14f6": ("C10", "revert: diff_abi_def ignores return values of nested definitions again"),
    "b1dc0b6": ("C17", "revert: [T; N] falls back to the default introspect_len (stops at 10000)"),
    "9ecb769": ("C04", "revert: Packed for ArrayVec forwards its element's answer again"),
    "9a889ba": ("C10", "revert: by-reference decision compares the native layouts only (structurally identical layouts of different versions alias)"),
}
HISTORY = """
## How the checks fared

Batch 1 (C01..C09) was read before it was run, and the workloads were widened where a patch needed an input the generator could not
produce: default-repr structs with runs of equally aligned fields (C01-A), (small, big, small) tuples in bulk containers (C02-A),
one enum per supported repr width (C04-A), equally long arrays of different element types (C05-A), low-byte inconsistencies between the
two BitVec header words (C06-A), multi-frame *encrypted files* (C07-B), interfaces with 63/64 arguments and 70 methods (C09-A),
futures abandoned after one poll (C09-B). With those, every change of batch 1 was reported on its first run.

Batch 2 (C10..C18) was run blind. Missed on the first run and why; all are reported now:
* C10-B  - the generated interfaces had no closure arguments: added `via_cb`, `mk_cb`, `fut` with a per-hop projection oracle
           (this also exposed defect #21 on the unchanged tree).
* C12-A  - versioned enum variants were only ever appended: added enums whose versioned variants sit in the middle.
* C13-A  - primitive-kind mutations went to u8/u32 only: now every ordered pair of kinds, bare and nested.
* C16-A  - threads only raced on the *same* interface: added tight-loop cached creation of different interfaces.
* C16-B  - a type-level hole: added a `Sync` probe that enables a sharing workload against a Cell-based implementation.
* C17-A  - no tuple struct with an ignored field in the zoo: added.
Silent by design: C03 on C03-A (C03 loads single values; the bulk path is C04's subject), C01 on C02-B and C05 on C13-A
(consistent on both sides / needs the canary-u32 pair that only C13 constructs).

Regressions (`R-<commit>`): the reverse of the five fix commits made after the seeding started, to show that the checks that led to
the fixes still report them.
"""


def main():
    rows = []
    for d in sorted(glob.glob(os.path.join(VERIF, "seeded", "C??-?"))) + sorted(glob.glob(os.path.join(VERIF, "seeded", "R-*"))):
        sid = os.path.basename(d)
        prop, var = sid.split("-")
        if prop == "R":
            prop = REVERTS[var][0]
        patch = open(os.path.join(d, "patch.diff")).read()
        files = sorted(set(re.findall(r"^diff --git a/(\S+)", patch, re.M)))
        confirm = None
        cl = os.path.join(VERIF, "seeded", "confirm_%s.log" % prop)
        if os.path.exists(cl):
            for line in open(cl):
                m = re.match(r"RESULT \S+ (\w) mod=(\S+) with_patch: passed=(\d*) demo_failed=(\d+) other_failed=(\d+) errors=\d+ \| without_patch: failed=(\d+) \[(.*)\]", line)
                if m and m.group(1) == var:
                    confirm = dict(demo_module=m.group(2), tests_passed_with_patch=int(m.group(3) or 0), demo_tests_failing_with_patch=int(m.group(4)),
                                   existing_tests_failing_with_patch=int(m.group(5)), demo_tests_failing_without_patch=int(m.group(6)), demo_without_patch=m.group(7))
        res = {}
        rp = os.path.join(d, "result.json")
        if os.path.exists(rp):
            res = json.load(open(rp))
        caught = sorted(c for c, r in res.items() if r.get("rc") == 1)
        missed = sorted(c for c, r in res.items() if r.get("rc") == 0)
        other = sorted(c for c, r in res.items() if r.get("rc") not in (0, 1))
        meta = dict(id=sid, property=prop, origin=("reverse of fix commit %s (regression)" % var) if sid.startswith("R-") else "independent sub-agent given only the property text and a scratch worktree",
                    summary=SUMMARY.get(sid, "") or (REVERTS[var][1] if sid.startswith("R-") else ""), files_changed=files, confirmed_by_me=confirm,
                    checks_run={c: dict(exit=r.get("rc"), wall_s=r.get("wall_s"), args=r.get("args"), first_lines=r.get("lines", [])[:4]) for c, r in res.items()},
                    caught_by=caught, not_caught_by=missed, inconclusive=other,
                    apply="git -C /repo apply /verif/seeded/%s/patch.diff   (undo: git -C /repo checkout -- .)" % sid)
        json.dump(meta, open(os.path.join(d, "meta.json"), "w"), indent=1)
        rows.append(meta)
    with open(os.path.join(VERIF, "seeded", "README.md"), "w") as f:
        f.write("# Seeded changes\n\nEach directory holds a realistic change to avl/savefile that compiles and passes the 219 baseline tests but breaks one property\n"
                "(`patch.diff`), the author's demonstration (`demo.rs`, `notes.md`), my own confirmation (`meta.json: confirmed_by_me`, from `lib/confirm_seed.sh`:\n"
                "full suite with patch + demo -> only demo tests fail; demo without patch -> passes) and the result of running the registered checks against it\n"
                "(`lib/seedtest.py`, `result.json`). None of these is ever committed to /repo.\n\n")
        f.write("| id | change | caught by | run but silent |\n|---|---|---|---|\n")
        for m in rows:
            f.write("| %s | %s | %s | %s |\n" % (m["id"], m["summary"], ", ".join(m["caught_by"]) or "-", ", ".join(m["not_caught_by"]) or "-"))
        f.write(HISTORY)
    print("wrote %d meta files" % len(rows))


if __name__ == "__main__":
    main()
