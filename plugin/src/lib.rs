//! Plugin side of C11: compiled separately (nightly, -Zrandomize-layout) and loaded by the
//! stable-built host through AbiConnection::load_shared_library.

#[path = "../shared/ptypes.rs"]
pub mod ptypes;
use ptypes::*;
use savefile_derive::savefile_abi_export;

#[derive(Default)]
pub struct ProbeImpl;

impl Probe for ProbeImpl {
    fn see_a(&self, x: &A) -> String {
        format!("{:?}", x)
    }
    fn see_b(&self, x: &B) -> String {
        format!("{:?}", x)
    }
    fn see_c(&self, x: &C) -> String {
        format!("{:?}", x)
    }
    fn see_d(&self, x: &D) -> String {
        format!("{:?}", x)
    }
    fn see_e(&self, x: &E) -> String {
        format!("{:?}", x)
    }
    fn see_p(&self, x: &P) -> String {
        format!("{:?}", x)
    }
    fn see_g(&self, x: &G) -> String {
        format!("{:?}", x)
    }
    fn see_v(&self, x: &V) -> String {
        format!("{:?}", x)
    }
    fn see_vec_a(&self, x: &Vec<A>) -> String {
        format!("{:?}", x)
    }
    fn see_vec_p(&self, x: &Vec<P>) -> String {
        format!("{:?}", x)
    }
    fn see_slice_a(&self, x: &[A]) -> String {
        format!("{:?}", x)
    }
    fn see_slice_p(&self, x: &[P]) -> String {
        format!("{:?}", x)
    }
    fn see_slice_u32(&self, x: &[u32]) -> String {
        format!("{:?}", x)
    }
    fn see_str(&self, x: &str) -> String {
        format!("{:?}", x)
    }
    fn see_string(&self, x: &String) -> String {
        format!("{:?}", x)
    }
    fn see_tuple(&self, x: &(u8, u32, u16)) -> String {
        format!("{:?}", x)
    }
    fn see_u64(&self, x: &u64) -> String {
        format!("{:?}", x)
    }
    fn see_many(&self, a: &A, p: &P, b: &B, n: u32, s: &str) -> String {
        format!("{:?} {:?} {:?} {} {:?}", a, p, b, n, s)
    }
    fn by_value(&self, a: A, b: B, e: E) -> String {
        format!("{:?} {:?} {:?}", a, b, e)
    }
    fn make_d(&self, seed: u32) -> D {
        ptypes::make_d(seed)
    }
    fn layout(&self) -> Vec<(String, Vec<usize>)> {
        layout_facts()
    }
    fn compiler(&self) -> String {
        format!("{} flags:{}", env!("VPLUGIN_RUSTC"), env!("VPLUGIN_FLAGS"))
    }
}

savefile_abi_export!(ProbeImpl, Probe);
