fn main() {
    let rustc = std::env::var("RUSTC").unwrap_or_else(|_| "rustc".into());
    let v = std::process::Command::new(&rustc).arg("--version").output().map(|o| String::from_utf8_lossy(&o.stdout).trim().to_string()).unwrap_or_default();
    println!("cargo:rustc-env=VPLUGIN_RUSTC={}", v);
    println!("cargo:rustc-env=VPLUGIN_FLAGS={}", std::env::var("CARGO_ENCODED_RUSTFLAGS").unwrap_or_default().replace('\u{1f}', " "));
}
