//! Types and the exported interface shared (as source) between the host harness and the
//! separately compiled plugin. The repr(Rust) structs have fields of mixed sizes so that
//! `-Zrandomize-layout` in the plugin build actually moves them.

use savefile_derive::{savefile_abi_exportable, Savefile};
use std::mem::{align_of, offset_of, size_of};

#[derive(Savefile, Debug, Clone, PartialEq, Default)]
pub struct A {
    pub a: u8,
    pub b: u32,
    pub c: u16,
    pub d: u64,
}
#[derive(Savefile, Debug, Clone, PartialEq, Default)]
pub struct B {
    pub s: String,
    pub x: u32,
    pub v: Vec<u16>,
    pub y: u8,
}
#[derive(Savefile, Debug, Clone, PartialEq, Default)]
pub struct C(pub u8, pub u64, pub u8, pub u32);
#[derive(Savefile, Debug, Clone, PartialEq, Default)]
pub struct D {
    pub a: A,
    pub k: u16,
    pub b: B,
    pub c: C,
}
#[derive(Savefile, Debug, Clone, PartialEq)]
#[repr(u8)]
pub enum E {
    X(u8, u32),
    Y { p: u16, q: u16 },
    Z,
}
#[derive(Savefile, Debug, Clone, PartialEq, Default)]
#[repr(C)]
pub struct P {
    pub x: u32,
    pub y: u32,
}
#[derive(Savefile, Debug, Clone, PartialEq, Default)]
pub struct G {
    pub arr: [A; 2],
    pub t: (u8, u32, u16),
    pub o: Option<u32>,
    pub f: bool,
}
#[derive(Savefile, Debug, Clone, PartialEq, Default)]
pub struct V {
    pub items: Vec<A>,
    pub names: Vec<String>,
    pub ps: Vec<P>,
}

#[savefile_abi_exportable(version = 0)]
pub trait Probe {
    fn see_a(&self, x: &A) -> String;
    fn see_b(&self, x: &B) -> String;
    fn see_c(&self, x: &C) -> String;
    fn see_d(&self, x: &D) -> String;
    fn see_e(&self, x: &E) -> String;
    fn see_p(&self, x: &P) -> String;
    fn see_g(&self, x: &G) -> String;
    fn see_v(&self, x: &V) -> String;
    fn see_vec_a(&self, x: &Vec<A>) -> String;
    fn see_vec_p(&self, x: &Vec<P>) -> String;
    fn see_slice_a(&self, x: &[A]) -> String;
    fn see_slice_p(&self, x: &[P]) -> String;
    fn see_slice_u32(&self, x: &[u32]) -> String;
    fn see_str(&self, x: &str) -> String;
    fn see_string(&self, x: &String) -> String;
    fn see_tuple(&self, x: &(u8, u32, u16)) -> String;
    fn see_u64(&self, x: &u64) -> String;
    fn see_many(&self, a: &A, p: &P, b: &B, n: u32, s: &str) -> String;
    fn by_value(&self, a: A, b: B, e: E) -> String;
    fn make_d(&self, seed: u32) -> D;
    fn layout(&self) -> Vec<(String, Vec<usize>)>;
    fn compiler(&self) -> String;
}

pub fn layout_facts() -> Vec<(String, Vec<usize>)> {
    vec![
        ("A".into(), vec![size_of::<A>(), align_of::<A>(), offset_of!(A, a), offset_of!(A, b), offset_of!(A, c), offset_of!(A, d)]),
        ("B".into(), vec![size_of::<B>(), align_of::<B>(), offset_of!(B, s), offset_of!(B, x), offset_of!(B, v), offset_of!(B, y)]),
        ("C".into(), vec![size_of::<C>(), align_of::<C>(), offset_of!(C, 0), offset_of!(C, 1), offset_of!(C, 2), offset_of!(C, 3)]),
        ("D".into(), vec![size_of::<D>(), align_of::<D>(), offset_of!(D, a), offset_of!(D, k), offset_of!(D, b), offset_of!(D, c)]),
        ("E".into(), vec![size_of::<E>(), align_of::<E>()]),
        ("P".into(), vec![size_of::<P>(), align_of::<P>(), offset_of!(P, x), offset_of!(P, y)]),
        ("G".into(), vec![size_of::<G>(), align_of::<G>(), offset_of!(G, arr), offset_of!(G, t), offset_of!(G, o), offset_of!(G, f)]),
        ("V".into(), vec![size_of::<V>(), align_of::<V>(), offset_of!(V, items), offset_of!(V, names), offset_of!(V, ps)]),
        ("tuple".into(), vec![size_of::<(u8, u32, u16)>(), align_of::<(u8, u32, u16)>()]),
        ("Vec".into(), vec![size_of::<Vec<u8>>(), vec_layout_code()]),
        ("String".into(), vec![size_of::<String>()]),
    ]
}

/// which of the three words of a Vec holds pointer / capacity / length (observed, not assumed)
pub fn vec_layout_code() -> usize {
    let v: Vec<u8> = Vec::with_capacity(7);
    let words: [usize; 3] = unsafe { std::mem::transmute_copy(&v) };
    let p = v.as_ptr() as usize;
    let mut code = 0;
    for (i, w) in words.iter().enumerate() {
        let kind = if *w == p { 1 } else if *w == 7 { 2 } else if *w == 0 { 3 } else { 9 };
        code += kind * 10usize.pow(i as u32);
    }
    code
}

pub fn make_d(seed: u32) -> D {
    let s = seed as u64;
    D {
        a: A { a: seed as u8, b: seed.wrapping_mul(3), c: (seed >> 3) as u16, d: s.wrapping_mul(0x9E3779B97F4A7C15) },
        k: (seed % 65521) as u16,
        b: B { s: format!("d{}", seed), x: !seed, v: (0..(seed % 5) as u16).collect(), y: (seed % 251) as u8 },
        c: C(1, s << 7, 2, seed ^ 0xaaaa),
    }
}
