#!/bin/bash
# Builds everything the quick tier needs, offline, from files on disk only.
set -u
cd "$(dirname "$0")"
export CARGO_NET_OFFLINE=true
python3 lib/setup.py "$@"
