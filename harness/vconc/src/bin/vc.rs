use vutil::ctx::{Ctx, Tier};

fn arg(args: &[String], name: &str) -> Option<String> {
    args.iter().position(|a| a == name).and_then(|i| args.get(i + 1).cloned())
}

fn main() {
    let args: Vec<String> = std::env::args().collect();
    let prop = args.get(1).cloned().unwrap_or_else(|| "C16".into());
    if prop == "noop" {
        return;
    }
    let seed: u64 = arg(&args, "--seed").and_then(|s| s.parse().ok()).unwrap_or(1);
    let tier = match arg(&args, "--tier").as_deref() {
        Some("thorough") => Tier::Thorough,
        _ => Tier::Quick,
    };
    let (shard, nshards) = arg(&args, "--shard")
        .and_then(|s| {
            let mut it = s.split('/');
            Some((it.next()?.parse().ok()?, it.next()?.parse().ok()?))
        })
        .unwrap_or((0usize, 1usize));
    let build = arg(&args, "--build").unwrap_or_else(|| "release".into());
    if std::env::var("VH_LOUD_PANICS").is_err() {
        vutil::util::silence_panics();
    }
    let mut ctx = Ctx::new(&prop, seed, tier, shard, nshards, &build);
    let t0 = std::time::Instant::now();
    vconc::run(&mut ctx);
    let mut rep = ctx.report();
    rep.push("wall_ms", vutil::util::J::i(t0.elapsed().as_millis() as u64));
    let text = rep.render();
    match arg(&args, "--out") {
        Some(p) => {
            // atomic: several interpreter seeds of one process may finish at the same time
            let nonce = std::time::SystemTime::now().duration_since(std::time::UNIX_EPOCH).map(|d| d.subsec_nanos()).unwrap_or(0) as usize ^ (&text as *const String as usize);
            let tmp = format!("{}.{:x}.tmp", p, nonce);
            std::fs::write(&tmp, text).expect("write report");
            std::fs::rename(&tmp, p).expect("rename report");
        }
        None => println!("{}", text),
    }
}
