//! C16 ABI connections are safe to create and use concurrently.
//!
//! Kept free of the heavy type zoo so that it also builds quickly under
//! ThreadSanitizer (-Zbuild-std) and Miri.

use savefile_abi::AbiConnection;
use savefile_derive::savefile_abi_exportable;
use std::sync::atomic::{AtomicU64, Ordering};
use std::sync::{Arc, Barrier, Mutex};
use vutil::ctx::Ctx;
use vutil::util::{fnv64, Rng, J};

#[savefile_abi_exportable(version = 0)]
pub trait Leaf: Send + Sync {
    fn value(&self) -> u32;
}
pub struct LeafImpl(pub u32);
impl Leaf for LeafImpl {
    fn value(&self) -> u32 {
        self.0
    }
}

/// What the scenarios need from one generated interface type.
pub trait Handle: Send + Sync {
    fn f(&self, x: u32) -> u32;
    fn ticket(&self) -> u64;
    fn with_cb(&self, x: u32) -> u32;
    fn leaf(&self) -> u32;
    fn nested(&self, x: u32) -> u32;
}
pub struct Trial {
    pub name: &'static str,
    pub k: u32,
    pub create: fn() -> Result<Box<dyn Handle>, String>,
}

pub fn expected_f(k: u32, x: u32) -> u32 {
    x.wrapping_mul(31).wrapping_add(k)
}
pub fn expected_cb(k: u32, x: u32) -> u32 {
    // callee calls cb(x) and cb(x+1) where cb(y) = y ^ 0x5a5a, and adds k
    (x ^ 0x5a5a).wrapping_add(x.wrapping_add(1) ^ 0x5a5a).wrapping_add(k)
}

macro_rules! conc_trait {
    ($m:ident, $k:expr) => {
        pub mod $m {
            use super::*;
            #[savefile_abi_exportable(version = 0)]
            pub trait Cc: Send + Sync {
                fn f(&self, x: u32) -> u32;
                fn ticket(&self) -> u64;
                fn with_cb(&self, cb: &dyn Fn(u32) -> u32, x: u32) -> u32;
                fn boxed(&self) -> Box<dyn Leaf>;
                fn nested(&self, other: &dyn Leaf, x: u32) -> u32;
            }
            pub struct Imp {
                pub n: AtomicU64,
            }
            impl Cc for Imp {
                fn f(&self, x: u32) -> u32 {
                    expected_f($k, x)
                }
                fn ticket(&self) -> u64 {
                    self.n.fetch_add(1, Ordering::SeqCst)
                }
                fn with_cb(&self, cb: &dyn Fn(u32) -> u32, x: u32) -> u32 {
                    cb(x).wrapping_add(cb(x.wrapping_add(1))).wrapping_add($k)
                }
                fn boxed(&self) -> Box<dyn Leaf> {
                    Box::new(LeafImpl($k + 1000))
                }
                fn nested(&self, other: &dyn Leaf, x: u32) -> u32 {
                    // `other` arrives as an AbiConnection created inside this call
                    other.value().wrapping_add(x)
                }
            }
            pub struct H(pub AbiConnection<dyn Cc>);
            impl Handle for H {
                fn f(&self, x: u32) -> u32 {
                    self.0.f(x)
                }
                fn ticket(&self) -> u64 {
                    self.0.ticket()
                }
                fn with_cb(&self, x: u32) -> u32 {
                    self.0.with_cb(&|y| y ^ 0x5a5a, x)
                }
                fn leaf(&self) -> u32 {
                    self.0.boxed().value()
                }
                fn nested(&self, x: u32) -> u32 {
                    self.0.nested(&LeafImpl(77), x)
                }
            }
            pub fn create() -> Result<Box<dyn Handle>, String> {
                let b: Box<dyn Cc> = Box::new(Imp { n: AtomicU64::new(0) });
                match AbiConnection::from_boxed_trait(b) {
                    Ok(c) => Ok(Box::new(H(c))),
                    Err(e) => Err(format!("{:?}", e)),
                }
            }
            pub const TRIAL: Trial = Trial { name: stringify!($m), k: $k, create };
        }
    };
}

conc_trait!(t0, 0);
conc_trait!(t1, 1);
conc_trait!(t2, 2);
conc_trait!(t3, 3);
conc_trait!(t4, 4);
conc_trait!(t5, 5);
conc_trait!(t6, 6);
conc_trait!(t7, 7);
conc_trait!(t8, 8);
conc_trait!(t9, 9);
conc_trait!(t10, 10);
conc_trait!(t11, 11);
conc_trait!(t12, 12);
conc_trait!(t13, 13);
conc_trait!(t14, 14);
conc_trait!(t15, 15);
conc_trait!(t16, 16);
conc_trait!(t17, 17);
conc_trait!(t18, 18);
conc_trait!(t19, 19);
conc_trait!(t20, 20);
conc_trait!(t21, 21);
conc_trait!(t22, 22);
conc_trait!(t23, 23);

pub fn trials() -> Vec<Trial> {
    vec![
        t0::TRIAL, t1::TRIAL, t2::TRIAL, t3::TRIAL, t4::TRIAL, t5::TRIAL, t6::TRIAL, t7::TRIAL, t8::TRIAL, t9::TRIAL, t10::TRIAL, t11::TRIAL, t12::TRIAL, t13::TRIAL, t14::TRIAL,
        t15::TRIAL, t16::TRIAL, t17::TRIAL, t18::TRIAL, t19::TRIAL, t20::TRIAL, t21::TRIAL, t22::TRIAL, t23::TRIAL,
    ]
}

// ---- hook: record passing order, perturb the schedule ----------------------------------------------

static HOOK_LOG: Mutex<Vec<(u64, &'static str)>> = Mutex::new(Vec::new());
static HOOK_SEED: AtomicU64 = AtomicU64::new(1);
thread_local! {
    static THREAD_NO: std::cell::Cell<u64> = std::cell::Cell::new(0);
    static THREAD_RNG: std::cell::Cell<u64> = std::cell::Cell::new(0);
}
fn hook(point: &'static str, _a: u64, _b: u64) {
    if point == "reply" {
        return;
    }
    let t = THREAD_NO.with(|c| c.get());
    if let Ok(mut g) = HOOK_LOG.lock() {
        if g.len() < 20_000 {
            g.push((t, point));
        }
    }
    // the lock above is released before perturbing the schedule
    let r = THREAD_RNG.with(|c| {
        let mut x = c.get();
        if x == 0 {
            x = HOOK_SEED.load(Ordering::Relaxed) ^ (t.wrapping_mul(0x9E3779B97F4A7C15)) | 1;
        }
        x ^= x << 13;
        x ^= x >> 7;
        x ^= x << 17;
        c.set(x);
        x
    });
    match r % 8 {
        0 => std::thread::sleep(std::time::Duration::from_micros(if cfg!(miri) { 1 } else { 30 + r % 200 })),
        1 | 2 | 3 => std::thread::yield_now(),
        _ => {}
    }
}

fn catch<R>(f: impl FnOnce() -> R) -> Result<R, String> {
    vutil::util::catch(f)
}

/// One trial: `nthreads` threads race to create connections for a never-used interface type,
/// then call through their own and through one shared connection.
pub fn run_trial(ctx: &mut Ctx, trial: &Trial, nthreads: usize, seed: u64, calls: usize) {
    HOOK_SEED.store(seed | 1, Ordering::SeqCst);
    if let Ok(mut g) = HOOK_LOG.lock() {
        g.clear();
    }
    let barrier = Arc::new(Barrier::new(nthreads));
    let shared: Arc<Mutex<Option<Arc<Box<dyn Handle>>>>> = Arc::new(Mutex::new(None));
    let k = trial.k;
    let create = trial.create;
    let results: Arc<Mutex<Vec<String>>> = Arc::new(Mutex::new(vec![]));
    let tickets: Arc<Mutex<Vec<u64>>> = Arc::new(Mutex::new(vec![]));
    let mut joins = vec![];
    for t in 0..nthreads {
        let barrier = barrier.clone();
        let shared = shared.clone();
        let results = results.clone();
        let tickets = tickets.clone();
        joins.push(std::thread::spawn(move || {
            THREAD_NO.with(|c| c.set(t as u64 + 1));
            THREAD_RNG.with(|c| c.set(0));
            let mut rng = Rng::new(seed ^ (t as u64 * 7919));
            barrier.wait();
            // start skew
            for _ in 0..rng.below(4) {
                std::thread::yield_now();
            }
            let mut problems: Vec<String> = vec![];
            let conn = match catch(create) {
                Ok(Ok(c)) => c,
                Ok(Err(e)) => {
                    results.lock().unwrap().push(format!("thread {}: connection creation failed: {}", t, e));
                    return;
                }
                Err(p) => {
                    results.lock().unwrap().push(format!("thread {}: connection creation panicked: {}", t, p));
                    return;
                }
            };
            // first thread to get here publishes a shared connection
            let sh = {
                let mut g = shared.lock().unwrap();
                if g.is_none() {
                    match catch(create) {
                        Ok(Ok(c)) => *g = Some(Arc::new(c)),
                        other => problems.push(format!("shared connection creation failed: {:?}", other.map(|x| x.map(|_| ())))),
                    }
                }
                g.clone()
            };
            for c in 0..calls {
                let x = rng.next_u64() as u32;
                let r = catch(std::panic::AssertUnwindSafe(|| match c % 5 {
                    0 => (conn.f(x), expected_f(k, x)),
                    1 => (conn.with_cb(x), expected_cb(k, x)),
                    2 => (conn.leaf(), k + 1000),
                    3 => (conn.nested(x), 77u32.wrapping_add(x)),
                    _ => match &sh {
                        Some(s) => (s.f(x), expected_f(k, x)),
                        None => (0, 0),
                    },
                }));
                match r {
                    Ok((got, want)) if got == want => {}
                    Ok((got, want)) => problems.push(format!("thread {} call {}: got {} expected {}", t, c, got, want)),
                    Err(p) => problems.push(format!("thread {} call {} panicked: {}", t, c, p)),
                }
                if let Some(s) = &sh {
                    match catch(std::panic::AssertUnwindSafe(|| s.ticket())) {
                        Ok(tk) => tickets.lock().unwrap().push(tk),
                        Err(p) => problems.push(format!("thread {} ticket panicked: {}", t, p)),
                    }
                }
            }
            drop(conn);
            if !problems.is_empty() {
                results.lock().unwrap().extend(problems);
            }
        }));
    }
    let mut join_panics = 0;
    for j in joins {
        if j.join().is_err() {
            join_panics += 1;
        }
    }
    ctx.eval();
    ctx.count("trials");
    ctx.count_n("threads_run", nthreads as u64);
    let label = format!("{}x{}", trial.name, nthreads);
    let problems = results.lock().unwrap().clone();
    if join_panics > 0 || !problems.is_empty() {
        ctx.violation(
            "C16:concurrent-result-differs-from-sequential",
            &label,
            J::obj(vec![("seed", J::i(seed)), ("threads", J::i(nthreads)), ("thread_panics", J::i(join_panics)), ("problems", J::Arr(problems.iter().take(10).map(|x| J::s(x.clone())).collect()))]),
        );
    } else {
        ctx.count("trials_all_results_as_sequential");
    }
    // ticket conservation on the shared connection: every ticket exactly once, none lost
    let mut tk = tickets.lock().unwrap().clone();
    let n = tk.len();
    tk.sort();
    let unique = {
        let mut u = tk.clone();
        u.dedup();
        u.len()
    };
    let complete = tk.iter().enumerate().all(|(i, v)| *v == i as u64);
    ctx.count_n("tickets_drawn", n as u64);
    if unique != n || !complete {
        ctx.violation("C16:shared-connection-lost-or-duplicated-ticket", &label, J::obj(vec![("drawn", J::i(n)), ("unique", J::i(unique)), ("contiguous_from_zero", J::Bool(complete))]));
    } else {
        ctx.count("ticket_sets_exact");
    }
    // observed interleaving of the hook points
    let log = HOOK_LOG.lock().map(|g| g.clone()).unwrap_or_default();
    ctx.count_n("hook_events", log.len() as u64);
    let misses = log.iter().filter(|x| x.1 == "new:template_cache_miss").count();
    ctx.count_n("template_cache_misses", misses as u64);
    ctx.count_n("template_cache_hits", log.iter().filter(|x| x.1 == "new:leave").count().saturating_sub(misses) as u64);
    let mut order = String::new();
    for (t, p) in log.iter().take(400) {
        order.push_str(&format!("{}{};", t, &p[p.len().saturating_sub(6)..]));
    }
    ctx.distinct(&format!("{:016x}", fnv64(order.as_bytes())));
    if ctx.evaluations % 17 == 1 {
        ctx.sample(
            "trial",
            J::obj(vec![
                ("interface", J::s(trial.name)),
                ("threads", J::i(nthreads)),
                ("seed", J::i(seed)),
                ("hook_events", J::i(log.len())),
                ("first_hook_events", J::Arr(log.iter().take(16).map(|(t, p)| J::s(format!("T{} {}", t, p))).collect())),
            ]),
        );
    }
}

// ---- cached creation of different interfaces from many threads ------------------------------------------

/// After first use every interface has a cached template. Threads now create connections for *different*
/// interfaces in tight loops (each thread walks the interface list from its own offset), call once and drop.
/// Every connection must behave like its own interface (result of f identifies the interface).
pub fn mixed_creators(ctx: &mut Ctx, seed: u64) {
    let ts = Arc::new(trials());
    let nthreads = if cfg!(miri) { 2 } else { 8 };
    let slow = cfg!(miri) || std::env::var("VH_SANITIZER").is_ok();
    let iters = if cfg!(miri) { 6 } else if slow { ctx.t(400, 2000) } else { ctx.t(20000, 100000) };
    let ntypes = if cfg!(miri) { 2 } else { ts.len() };
    let problems: Arc<Mutex<Vec<String>>> = Arc::new(Mutex::new(vec![]));
    let created = Arc::new(AtomicU64::new(0));
    let barrier = Arc::new(Barrier::new(nthreads));
    let mut joins = vec![];
    for t in 0..nthreads {
        let (ts, problems, created, barrier) = (ts.clone(), problems.clone(), created.clone(), barrier.clone());
        joins.push(std::thread::spawn(move || {
            let mut rng = Rng::new(seed ^ (t as u64).wrapping_mul(0x9e37_79b9));
            barrier.wait();
            for i in 0..iters {
                // neighbouring threads ask for different interfaces at (almost) the same time
                let idx = (i + t * 5 + if rng.chance(1, 8) { rng.below(ntypes) } else { 0 }) % ntypes;
                let tr = &ts[idx];
                let x = rng.next_u64() as u32;
                let r = catch(std::panic::AssertUnwindSafe(|| {
                    let c = (tr.create)()?;
                    let a = c.f(x);
                    let b = if i % 16 == 0 { Some(c.with_cb(x)) } else { None };
                    Ok::<_, String>((a, b))
                }));
                created.fetch_add(1, Ordering::Relaxed);
                let bad = match r {
                    Ok(Ok((a, b))) => {
                        if a != expected_f(tr.k, x) {
                            Some(format!("f({}) = {} instead of {}", x, a, expected_f(tr.k, x)))
                        } else if b.is_some() && b != Some(expected_cb(tr.k, x)) {
                            Some(format!("with_cb({}) = {:?} instead of {}", x, b, expected_cb(tr.k, x)))
                        } else {
                            None
                        }
                    }
                    Ok(Err(e)) => Some(format!("creation failed: {}", e)),
                    Err(p) => Some(format!("panicked: {}", p)),
                };
                if let Some(b) = bad {
                    let mut g = problems.lock().unwrap_or_else(|p| p.into_inner());
                    if g.len() < 20 {
                        g.push(format!("thread {} iteration {} interface {}: {}", t, i, tr.name, b));
                    }
                }
            }
        }));
    }
    let mut join_panics = 0;
    for j in joins {
        if j.join().is_err() {
            join_panics += 1;
        }
    }
    ctx.eval();
    ctx.count_n("mixed_cached_creations", created.load(Ordering::Relaxed));
    ctx.distinct(&format!("mixed|{}|{}", nthreads, ntypes));
    let problems = problems.lock().unwrap_or_else(|p| p.into_inner()).clone();
    if join_panics > 0 || !problems.is_empty() {
        ctx.violation(
            "C16:concurrent-result-differs-from-sequential",
            "mixed-cached-creation",
            J::obj(vec![("seed", J::i(seed)), ("threads", J::i(nthreads)), ("interfaces", J::i(ntypes)), ("thread_panics", J::i(join_panics)), ("problems", J::Arr(problems.iter().take(10).map(|x| J::s(x.clone())).collect()))]),
        );
    } else {
        ctx.count("mixed_creation_rounds_as_sequential");
    }
}

// ---- Send-only interfaces must not become shareable -------------------------------------------------

/// An interface whose implementations are Send but not Sync (state in a Cell).
#[savefile_abi_exportable(version = 0)]
pub trait SendOnly: Send {
    fn bump(&self, by: u64) -> u64;
}
pub struct SendOnlyImpl(pub std::cell::Cell<u64>);
impl SendOnly for SendOnlyImpl {
    fn bump(&self, by: u64) -> u64 {
        let v = self.0.get();
        let n = std::hint::black_box(v).wrapping_add(by);
        self.0.set(n);
        n
    }
}
struct SyncProbe<T: ?Sized>(std::marker::PhantomData<T>);
trait SyncProbeFallback {
    fn declared_sync(&self) -> bool {
        false
    }
}
impl<T: ?Sized> SyncProbeFallback for SyncProbe<T> {}
impl<T: ?Sized + Sync> SyncProbe<T> {
    // inherent methods win over trait methods: chosen exactly when the type is declared Sync
    fn declared_sync(&self) -> bool {
        true
    }
}
struct ForceShare<T>(T);
unsafe impl<T> Sync for ForceShare<T> {}

/// Safe code can share an `AbiConnection<dyn T>` between threads exactly when the library declares it
/// `Sync`. If it does so for an interface that is only `Send`, concurrent calls reach the same
/// non-thread-safe implementation: run that workload and compare with the sequential result
/// (under TSan / Miri the race itself is reported).
pub fn send_only_interface(ctx: &mut Ctx) {
    ctx.eval();
    let declared = SyncProbe::<AbiConnection<dyn SendOnly>>(std::marker::PhantomData).declared_sync();
    ctx.distinct(&format!("send-only-declared-sync={}", declared));
    if !declared {
        ctx.count("send_only_connection_not_shareable");
        return;
    }
    let boxed: Box<dyn SendOnly> = Box::new(SendOnlyImpl(std::cell::Cell::new(0)));
    let conn = match catch(|| AbiConnection::from_boxed_trait(boxed)) {
        Ok(Ok(c)) => ForceShare(c),
        other => {
            ctx.inconclusive(format!("SendOnly connection could not be created: {:?}", other.map(|x| x.map(|_| "conn"))));
            return;
        }
    };
    let threads = if cfg!(miri) { 2u64 } else { 4 };
    let per = if cfg!(miri) { 50u64 } else { 200_000 };
    std::thread::scope(|sc| {
        for _ in 0..threads {
            sc.spawn(|| {
                let c = &conn;
                for _ in 0..per {
                    c.0.bump(1);
                }
            });
        }
    });
    let total = conn.0.bump(0);
    if total != threads * per {
        ctx.violation(
            "C16:send-only-interface-shared-between-threads",
            "SendOnly",
            J::obj(vec![
                ("observed", J::s(format!("AbiConnection<dyn SendOnly> is declared Sync although the interface is only Send; {} threads x {} calls of bump(1) on the shared connection gave {} instead of the sequential {}", threads, per, total, threads * per))),
            ]),
        );
    } else {
        ctx.inconclusive("AbiConnection<dyn SendOnly> is declared Sync although the interface is only Send, but no diverging result was observed in this run".to_string());
    }
}

pub fn run_group(ctx: &mut Ctx, group: usize) {
    savefile_abi::verif_hooks::set_hook(Some(hook));
    let ts = trials();
    let threads_choices = if cfg!(miri) { vec![2usize, 3] } else { vec![2usize, 4, 16, 64] };
    // every interface type is used for exactly one trial per process (first use is the point)
    for (i, t) in ts.iter().enumerate() {
        let n = threads_choices[(i + group) % threads_choices.len()];
        let seed = ctx.seed.wrapping_mul(1_000_003).wrapping_add((group * 100 + i) as u64);
        let calls = if cfg!(miri) { 3 } else { ctx.t(20, 60) };
        run_trial(ctx, t, n, seed, calls);
        if cfg!(miri) && i >= 1 {
            break;
        }
    }
    savefile_abi::verif_hooks::set_hook(None);
    // all interfaces of this process are cached now
    mixed_creators(ctx, ctx.seed.wrapping_mul(31).wrapping_add(group as u64));
    if group == 0 {
        send_only_interface(ctx);
    }
}

pub fn run(ctx: &mut Ctx) {
    let groups = ctx.t(6, 120);
    let child = vutil::isolate::child_item();
    for g in 0..groups {
        match child {
            Some(it) => {
                if it == g {
                    run_group(ctx, g);
                }
            }
            None => {
                if !ctx.mine(g) {
                    continue;
                }
                if vutil::isolate::in_process() {
                    run_group(ctx, g);
                    break; // interface types are fresh only once per process
                } else {
                    vutil::isolate::run_child(ctx, "C16", g, &format!("group{}", g), 90, "C16:process-died");
                }
            }
        }
    }
}
