pub mod checks;
pub mod ctx;
pub use vcore::{model, ops, registry, stdimpls, util};
