pub mod checks;
pub use vutil::ctx;
pub use vcore::{model, ops, registry, stdimpls, util};
