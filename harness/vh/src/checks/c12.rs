//! C12 Schemas are faithful: a generic reader driven only by the schema parses
//! the bytes written for a value completely and recovers the same structure.

use super::*;
use crate::model::{FieldKind, FieldShape};
use savefile::{Schema, SchemaPrimitive};

/// leaf tokens of a serialized value: the structure that both readers must agree on
#[derive(Clone, Debug, PartialEq)]
pub enum Tok {
    /// fixed-width primitive (width in bytes)
    Prim(usize),
    /// string with byte length
    Str(usize),
    /// element count of a sequence
    Count(usize),
    /// option tag
    Opt(bool),
    /// enum discriminant as written
    Discr(u64),
}

struct Rd<'a> {
    data: &'a [u8],
    pos: usize,
    toks: Vec<Tok>,
}

impl<'a> Rd<'a> {
    fn take(&mut self, n: usize, what: &str) -> Result<&'a [u8], String> {
        if self.data.len() - self.pos < n {
            return Err(format!("schema-driven reader ran out of bytes reading {} at offset {}", what, self.pos));
        }
        let s = &self.data[self.pos..self.pos + n];
        self.pos += n;
        Ok(s)
    }
    fn u64(&mut self, what: &str) -> Result<u64, String> {
        Ok(u64::from_le_bytes(self.take(8, what)?.try_into().unwrap()))
    }
}

/// Returns Err((node, message)) where node names the schema node at which reading failed.
fn read(s: &Schema, r: &mut Rd, path: &str) -> Result<(), (String, String)> {
    let e = |node: &str, m: String| (node.to_string(), m);
    match s {
        Schema::Struct(st) => {
            for f in st.fields.iter() {
                read(&f.value, r, &format!("{}/{}", path, st.dbg_name)).map_err(|(n, m)| (if n.is_empty() { st.dbg_name.clone() } else { n }, m))?;
            }
            Ok(())
        }
        Schema::Enum(en) => {
            let w = en.discriminant_size as usize;
            if ![1, 2, 4].contains(&w) {
                return Err(e(&en.dbg_name, format!("enum {} has discriminant size {}", en.dbg_name, w)));
            }
            let b = r.take(w, "discriminant").map_err(|m| e(&en.dbg_name, m))?;
            let mut buf = [0u8; 8];
            buf[..w].copy_from_slice(b);
            let d = u64::from_le_bytes(buf);
            r.toks.push(Tok::Discr(d));
            let matches: Vec<_> = en.variants.iter().filter(|v| v.discriminant as u64 == d).collect();
            if matches.len() != 1 {
                return Err(e(
                    &en.dbg_name,
                    format!("enum {}: {} variants carry discriminant {} (variants: {:?})", en.dbg_name, matches.len(), d, en.variants.iter().map(|v| (v.name.clone(), v.discriminant)).collect::<Vec<_>>()),
                ));
            }
            for f in matches[0].fields.iter() {
                read(&f.value, r, &format!("{}/{}::{}", path, en.dbg_name, matches[0].name)).map_err(|(n, m)| (if n.is_empty() { en.dbg_name.clone() } else { n }, m))?;
            }
            Ok(())
        }
        Schema::Primitive(p) => {
            let w = match p {
                SchemaPrimitive::schema_i8 | SchemaPrimitive::schema_u8 | SchemaPrimitive::schema_bool => 1,
                SchemaPrimitive::schema_i16 | SchemaPrimitive::schema_u16 => 2,
                SchemaPrimitive::schema_i32 | SchemaPrimitive::schema_u32 | SchemaPrimitive::schema_f32 | SchemaPrimitive::schema_char | SchemaPrimitive::schema_canary1 => 4,
                SchemaPrimitive::schema_i64 | SchemaPrimitive::schema_u64 | SchemaPrimitive::schema_f64 => 8,
                SchemaPrimitive::schema_i128 | SchemaPrimitive::schema_u128 => 16,
                SchemaPrimitive::schema_string(_) => {
                    let l = r.u64("string length").map_err(|m| e("", m))? as usize;
                    r.take(l, "string bytes").map_err(|m| e("", m))?;
                    r.toks.push(Tok::Str(l));
                    return Ok(());
                }
            };
            r.take(w, "primitive").map_err(|m| e("", m))?;
            r.toks.push(Tok::Prim(w));
            Ok(())
        }
        Schema::Vector(inner, _) => {
            let n = r.u64("vector length").map_err(|m| e("", m))? as usize;
            r.toks.push(Tok::Count(n));
            if n > r.data.len() * 8 + 1024 {
                return Err(e("", format!("vector length {} exceeds input", n)));
            }
            for _ in 0..n {
                read(inner, r, path)?;
            }
            Ok(())
        }
        Schema::Array(a) => {
            for _ in 0..a.count {
                read(&a.item_type, r, path)?;
            }
            Ok(())
        }
        Schema::SchemaOption(inner) => {
            let t = r.take(1, "option tag").map_err(|m| e("", m))?[0];
            match t {
                0 => {
                    r.toks.push(Tok::Opt(false));
                    Ok(())
                }
                1 => {
                    r.toks.push(Tok::Opt(true));
                    read(inner, r, path)
                }
                x => Err(e("", format!("option tag {}", x))),
            }
        }
        Schema::ZeroSize => Ok(()),
        Schema::Custom(c) if c == "HARNESS-BITVEC" => {
            r.take(8, "bit count").map_err(|m| e("BitVec", m))?;
            r.toks.push(Tok::Prim(8));
            let raw = r.u64("byte count").map_err(|m| e("BitVec", m))?;
            r.toks.push(Tok::Prim(8));
            let n = (raw & !(1u64 << 63)) as usize;
            r.take(n, "bit storage").map_err(|m| e("BitVec", m))?;
            for _ in 0..n {
                r.toks.push(Tok::Prim(1));
            }
            Ok(())
        }
        Schema::Boxed(inner) | Schema::Reference(inner) => read(inner, r, path),
        Schema::StdIoError => {
            r.take(2, "io error kind").map_err(|m| e("StdIoError", m))?;
            r.toks.push(Tok::Prim(2));
            let l = r.u64("string length").map_err(|m| e("StdIoError", m))? as usize;
            r.take(l, "string bytes").map_err(|m| e("StdIoError", m))?;
            r.toks.push(Tok::Str(l));
            Ok(())
        }
        Schema::UtcTimestamp => {
            r.take(8, "timestamp").map_err(|m| e("UtcTimestamp", m))?;
            r.toks.push(Tok::Prim(8));
            Ok(())
        }
        Schema::Recursion(d) => Err(e("Recursion", format!("recursion marker (depth {}) in the schema of a non-recursive type at {}", d, path))),
        other => Err(e("unsupported", format!("schema node {} cannot describe serialized data", other.top_level_description()))),
    }
}

fn field_toks(vals: &[(String, Val)], fields: &[FieldShape], ver: u32, out: &mut Vec<Tok>) -> Result<(), String> {
    for f in fields {
        if !f.on_wire(ver) {
            continue;
        }
        match &f.kind {
            FieldKind::Normal => {
                let v = vals.iter().find(|(n, _)| n == &f.name).map(|x| &x.1).ok_or("missing field")?;
                toks(v, &f.shape, ver, out)?;
            }
            FieldKind::AbiRemoved(c) => toks(c, &f.shape, ver, out)?,
            _ => return Err("not writable".into()),
        }
    }
    Ok(())
}

/// Token stream of the documented encoding of a value (mirrors model::encode).
pub fn toks(v: &Val, s: &Shape, ver: u32, out: &mut Vec<Tok>) -> Result<(), String> {
    match (s, v) {
        (Shape::Unit, _) => {}
        (Shape::Canary, _) => out.push(Tok::Prim(4)),
        (Shape::Str | Shape::StrCap(_), Val::Str(x)) => out.push(Tok::Str(x.len())),
        (Shape::Seq(inner, _), Val::Seq(items)) => {
            out.push(Tok::Count(items.len()));
            for i in items {
                toks(i, inner, ver, out)?;
            }
        }
        (Shape::Map(k, val, _), Val::Map(items)) => {
            out.push(Tok::Count(items.len()));
            for (a, b) in items {
                toks(a, k, ver, out)?;
                toks(b, val, ver, out)?;
            }
        }
        (Shape::Opt(_), Val::None) => out.push(Tok::Opt(false)),
        (Shape::Opt(inner), Val::Some(x)) => {
            out.push(Tok::Opt(true));
            toks(x, inner, ver, out)?;
        }
        (Shape::Res(ok, _), Val::Ok(x)) => {
            out.push(Tok::Discr(1));
            toks(x, ok, ver, out)?;
        }
        (Shape::Res(_, err), Val::Err(x)) => {
            out.push(Tok::Discr(0));
            toks(x, err, ver, out)?;
        }
        (Shape::Array(_, inner), Val::Seq(items)) => {
            for i in items {
                toks(i, inner, ver, out)?;
            }
        }
        (Shape::Tuple(shapes), Val::Tuple(items)) => {
            for (i, sh) in items.iter().zip(shapes.iter()) {
                toks(i, sh, ver, out)?;
            }
        }
        (Shape::Struct(_, fields), Val::Rec(vals)) => field_toks(vals, fields, ver, out)?,
        (Shape::Enum(_, _, variants), Val::Var(n, vals)) => {
            let (idx, var) = variants.iter().enumerate().find(|(_, x)| &x.name == n).ok_or("variant")?;
            out.push(Tok::Discr(idx as u64));
            field_toks(vals, &var.fields, ver, out)?;
        }
        (Shape::BitVec, Val::Bits(b)) => {
            out.push(Tok::Prim(8));
            out.push(Tok::Prim(8));
            // raw storage: not length prefixed
            for _ in 0..((b.len() + 31) / 32) * 4 {
                out.push(Tok::Prim(1));
            }
        }
        (Shape::IoError, Val::Tuple(items)) => {
            out.push(Tok::Prim(2));
            if let Val::Str(m) = &items[1] {
                out.push(Tok::Str(m.len()));
            }
        }
        (sh, _) => match model::fixed_size(sh, ver) {
            Some(w) => out.push(Tok::Prim(w)),
            None => return Err(format!("tokens: unhandled {:?}", sh)),
        },
    }
    Ok(())
}

/// The schema with the four recorded infidelities repaired (alternate prediction for the
/// known findings): Result variants numbered Ok=1 / Err=0, SocketAddr variants carrying port,
/// flow info and scope id, BitVec/BitSet as raw storage. Returns which repairs were applied.
fn patched(s: &Schema, applied: &mut Vec<&'static str>) -> Schema {
    use savefile::{Field, SchemaArray, SchemaEnum, SchemaStruct, Variant};
    let pf = |fields: &Vec<Field>, applied: &mut Vec<&'static str>| -> Vec<Field> { fields.iter().map(|f| Field::new(f.name.clone(), Box::new(patched(&f.value, applied)))).collect() };
    match s {
        Schema::Struct(st) if (st.dbg_name == "BitVec" || st.dbg_name == "BitSet") && st.fields.len() == 3 => {
            applied.push("BitVec");
            Schema::Custom("HARNESS-BITVEC".into())
        }
        Schema::Struct(st) => Schema::Struct(SchemaStruct::new(st.dbg_name.clone(), pf(&st.fields, applied))),
        Schema::Enum(en) if en.dbg_name == "Result" && en.variants.len() == 2 && en.variants[0].discriminant == 0 && en.variants[1].discriminant == 0 => {
            applied.push("Result");
            let vars = vec![
                Variant { name: "Ok".into(), discriminant: 1, fields: pf(&en.variants[0].fields, applied) },
                Variant { name: "Err".into(), discriminant: 0, fields: pf(&en.variants[1].fields, applied) },
            ];
            Schema::Enum(SchemaEnum::new("Result".into(), 1, vars))
        }
        Schema::Enum(en) if en.dbg_name == "SocketAddr" && en.variants.len() == 2 && en.variants[0].fields.len() == 1 => {
            applied.push("SocketAddr");
            let p = |x: SchemaPrimitive| Box::new(Schema::Primitive(x));
            let vars = vec![
                Variant { name: "IPV4".into(), discriminant: 0, fields: vec![Field::new("port".into(), p(SchemaPrimitive::schema_u16)), Field::new("ip".into(), p(SchemaPrimitive::schema_u32))] },
                Variant {
                    name: "IPV6".into(),
                    discriminant: 1,
                    fields: vec![
                        Field::new("port".into(), p(SchemaPrimitive::schema_u16)),
                        Field::new("ip".into(), p(SchemaPrimitive::schema_u128)),
                        Field::new("flowinfo".into(), p(SchemaPrimitive::schema_u32)),
                        Field::new("scope_id".into(), p(SchemaPrimitive::schema_u32)),
                    ],
                },
            ];
            Schema::Enum(SchemaEnum::new("SocketAddr".into(), 1, vars))
        }
        Schema::Enum(en) => Schema::Enum(SchemaEnum::new(
            en.dbg_name.clone(),
            en.discriminant_size,
            en.variants.iter().map(|v| Variant { name: v.name.clone(), discriminant: v.discriminant, fields: pf(&v.fields, applied) }).collect(),
        )),
        Schema::Vector(i, l) => Schema::Vector(Box::new(patched(i, applied)), *l),
        Schema::SchemaOption(i) => Schema::SchemaOption(Box::new(patched(i, applied))),
        Schema::Boxed(i) => Schema::Boxed(Box::new(patched(i, applied))),
        Schema::Array(a) => Schema::Array(SchemaArray { item_type: Box::new(patched(&a.item_type, applied)), count: a.count }),
        other => other.clone(),
    }
}

fn known_node_sig(node: &str, msg: &str) -> String {
    match node {
        "Result" => "C12:unfaithful-schema:Result-variants-share-discriminant-0".to_string(),
        "SocketAddr" => "C12:unfaithful-schema:SocketAddr-port-flowinfo-scope-missing".to_string(),
        "BitVec" | "BitSet" => "C12:unfaithful-schema:BitVec-raw-storage-described-as-length-prefixed-vector".to_string(),
        "Recursion" => "C12:recursion-marker-in-non-recursive-type".to_string(),
        _ if msg.contains("variants carry discriminant") => "C12:enum-discriminant-not-representable-in-schema".to_string(),
        _ => "C12:schema-does-not-describe-bytes".to_string(),
    }
}

#[allow(dead_code)]
fn schema_mentions(s: &Schema, name: &str) -> bool {
    match s {
        Schema::Struct(st) => st.dbg_name == name || st.fields.iter().any(|f| schema_mentions(&f.value, name)),
        Schema::Enum(en) => en.dbg_name == name || en.variants.iter().any(|v| v.fields.iter().any(|f| schema_mentions(&f.value, name))),
        Schema::Vector(i, _) | Schema::SchemaOption(i) | Schema::Boxed(i) => schema_mentions(i, name),
        Schema::Array(a) => schema_mentions(&a.item_type, name),
        _ => false,
    }
}

pub fn run(ctx: &mut Ctx, reg: &Registry) {
    let subs = subjects(reg);
    let nvals = nvals(ctx, 40, 80);
    for s in subs.iter() {
        if !ctx.mine(s.index) || !ctx.wants_type(&s.label) || !slow_keep(s) {
            continue;
        }
        let e = s.e;
        let shape = e.ops.shape();
        let mut rng = Rng::derive(ctx.seed, &format!("c12/{}", s.label));
        ctx.count("types");
        for ver in 0..=e.version {
            let schema = match catch(|| e.ops.schema(ver)) {
                Ok(x) => x,
                Err(p) => {
                    ctx.violation("C12:schema-panics", &s.label, J::obj(vec![("version", J::i(ver)), ("observed", J::s(p))]));
                    continue;
                }
            };
            ctx.count("schemas");
            let vals = gen_values(ctx, e, &mut rng, if ver == e.version { nvals } else { nvals / 3 + 1 }, ver);
            for v in vals.iter() {
                let Ok(reference) = model::encode(v, &shape, ver) else {
                    ctx.count("not_writable_at_version");
                    continue;
                };
                // use the real bytes when they agree with the reference (C02 reports disagreement)
                let bytes = match e.ops.bare_ser(v, ver) {
                    Outcome::Ok(b) if b == reference || !model::deterministic(&shape) => b,
                    _ => reference.clone(),
                };
                ctx.eval();
                ctx.distinct(&format!("{}|v{}|{}", s.label, ver, model::val_class(v)));
                let mut expected = vec![];
                if let Err(m) = toks(v, &shape, ver, &mut expected) {
                    ctx.inconclusive(format!("harness tokens for {}: {}", s.label, m));
                    continue;
                }
                if !model::deterministic(&shape) {
                    // hash containers: order of elements on the wire is unspecified; compare sorted token multiset
                    expected.sort_by(|a, b| format!("{:?}", a).cmp(&format!("{:?}", b)));
                }
                let mut r = Rd { data: &bytes, pos: 0, toks: vec![] };
                let res = read(&schema, &mut r, "");
                let mk = |observed: String| {
                    let mut j = case_json(&s.label, e.def, ver, v, Some(&bytes));
                    j.push("observed", J::s(observed));
                    let mut sd = format!("{:?}", schema);
                    if sd.len() > 1200 {
                        sd.truncate(1200);
                    }
                    j.push("schema", J::s(sd));
                    j
                };
                let sort_if = |mut t: Vec<Tok>| {
                    if !model::deterministic(&shape) {
                        t.sort_by(|a, b| format!("{:?}", a).cmp(&format!("{:?}", b)));
                    }
                    t
                };
                let ok_as_is = match &res {
                    Ok(()) => r.pos == bytes.len() && sort_if(r.toks.clone()) == expected,
                    Err(_) => false,
                };
                if ok_as_is {
                    ctx.count("schema_parsed_bytes_completely");
                    if ctx.evaluations % 1499 == 11 {
                        ctx.sample("schema-read", mk(format!("{} leaf tokens agree", r.toks.len())));
                    }
                    continue;
                }
                let observed = match &res {
                    Err((_, m)) => m.clone(),
                    Ok(()) if r.pos != bytes.len() => format!("schema-driven reader consumed {} of {} bytes", r.pos, bytes.len()),
                    Ok(()) => {
                        let mut a = format!("{:?}", r.toks);
                        a.truncate(300);
                        let mut b = format!("{:?}", expected);
                        b.truncate(300);
                        format!("structure by schema {} vs structure of value {}", a, b)
                    }
                };
                // alternate prediction: with the recorded infidelities repaired, does the schema describe the bytes?
                let mut applied = vec![];
                let fixed_schema = patched(&schema, &mut applied);
                applied.sort();
                applied.dedup();
                let mut r2 = Rd { data: &bytes, pos: 0, toks: vec![] };
                let res2 = read(&fixed_schema, &mut r2, "");
                let explained = !applied.is_empty() && res2.is_ok() && r2.pos == bytes.len() && sort_if(r2.toks.clone()) == expected;
                let sig = if explained {
                    format!("C12:unfaithful-schema[{}]", applied.join("+"))
                } else {
                    match &res {
                        Err((node, m)) if node == "Recursion" || m.contains("variants carry discriminant") => known_node_sig(node, m),
                        Err(_) => "C12:schema-does-not-describe-bytes".to_string(),
                        Ok(()) if r.pos != bytes.len() => "C12:schema-reader-leaves-bytes-unconsumed".to_string(),
                        Ok(()) => "C12:schema-structure-differs-from-value".to_string(),
                    }
                };
                ctx.violation(&sig, &s.label, mk(observed));
            }
        }
    }
}
