//! C08 I/O faults surface as errors; results are independent of chunking.

use super::io::{ChunkyReader, FaultyWriter};
use super::*;
use crate::ops::{Container, KEY};
use std::io::ErrorKind;

/// Independent decryptor for the documented stream framing, written against `ring` directly:
/// 12 byte nonce (u64 LE, u32 LE); per chunk the u32 part is incremented (carry into the u64),
/// then `u64 length` + AES-256-GCM ciphertext with 16 byte tag. Returns the plaintext of all
/// *complete* frames, and whether a complete frame failed to authenticate.
pub fn decrypt_frames(data: &[u8], key: &[u8; 32]) -> (Vec<u8>, bool) {
    use ring::aead;
    let mut out = vec![];
    if data.len() < 12 {
        return (out, false);
    }
    let mut d1 = u64::from_le_bytes(data[0..8].try_into().unwrap());
    let mut d2 = u32::from_le_bytes(data[8..12].try_into().unwrap());
    let k = aead::LessSafeKey::new(aead::UnboundKey::new(&aead::AES_256_GCM, key).unwrap());
    let mut p = 12;
    while p + 8 <= data.len() {
        let l = u64::from_le_bytes(data[p..p + 8].try_into().unwrap()) as usize;
        if p + 8 + l > data.len() || l < 16 {
            break;
        }
        d2 = d2.wrapping_add(1);
        if d2 == 0 {
            d1 = d1.wrapping_add(1);
        }
        let mut nonce = [0u8; 12];
        nonce[..8].copy_from_slice(&d1.to_le_bytes());
        nonce[8..].copy_from_slice(&d2.to_le_bytes());
        let mut buf = data[p + 8..p + 8 + l].to_vec();
        match k.open_in_place(aead::Nonce::assume_unique_for_key(nonce), aead::Aad::empty(), &mut buf) {
            Ok(plain) => out.extend_from_slice(plain),
            Err(_) => return (out, true),
        }
        p += 8 + l;
    }
    (out, false)
}

const HARD_KINDS: [ErrorKind; 4] = [ErrorKind::Other, ErrorKind::BrokenPipe, ErrorKind::UnexpectedEof, ErrorKind::PermissionDenied];

pub fn run(ctx: &mut Ctx, reg: &Registry) {
    let subs = subjects(reg);
    let stride = ctx.t(2, 1);
    for s in subs.iter() {
        if !ctx.mine(s.index) || !ctx.wants_type(&s.label) {
            continue;
        }
        if ctx.type_filter.is_none() && s.index % stride != 0 {
            continue;
        }
        let e = s.e;
        let ver = e.version;
        let shape = e.ops.shape();
        let mut rng = Rng::derive(ctx.seed, &format!("c08/{}", s.label));
        let vals = gen_values(ctx, e, &mut rng, ctx.t(2, 4), ver);
        for v in vals.iter() {
            let Ok(payload) = model::encode(v, &shape, ver) else { continue };
            let Ok((expected, _)) = model::decode(&payload, &shape, ver) else { continue };
            for c in [Container::Plain, Container::Compressed, Container::CryptoMem] {
                let Outcome::Ok(full) = e.ops.save(v, ver, c) else { continue };
                match e.ops.load(&full, ver, c) {
                    Outcome::Ok((x, _)) if x == expected => {}
                    _ => continue,
                }
                if full.len() > 3000 {
                    continue;
                }
                let plain = match e.ops.save(v, ver, Container::Plain) {
                    Outcome::Ok(b) => b,
                    _ => continue,
                };
                ctx.count(&format!("files:{}", c.name()));
                ctx.sample(&format!("fault-schedule:{}", c.name()), {
                    let mut j = case_json(&s.label, e.def, ver, v, Some(&full));
                    j.push("container", J::s(c.name()));
                    j.push("schedules", J::s(format!("writer fails at every offset 0..{0} (kinds Other/BrokenPipe/UnexpectedEof/PermissionDenied, chunk limits 1/5/64/unlimited); reader fails at every offset 0..{0}; 8 short-write/Interrupted writer schedules; 8 chunked/Interrupted reader schedules", full.len())));
                    j
                });
                // the writer-side oracles compare bytes of separate saves of equal values: only meaningful for
                // types whose encoding is a function of the value (no hash-ordered containers inside)
                if model::deterministic(&shape) {
                    writer_faults(ctx, s, v, &full, &plain, c, &mut rng);
                    writer_chunking(ctx, s, v, &full, &plain, c, &mut rng);
                } else {
                    ctx.count("writer_oracles_skipped_unordered_container");
                }
                reader_chunking(ctx, s, v, &expected, &full, c, &mut rng);
                reader_faults(ctx, s, v, &expected, &full, c);
            }
        }
    }
}

fn check_accepted_prefix(accepted: &[u8], full: &[u8], plain: &[u8], c: Container) -> Result<(), String> {
    if c == Container::CryptoMem {
        // nonce is random: decide through the independent decryptor
        let (pt, authfail) = decrypt_frames(accepted, &KEY);
        if authfail {
            return Err("a complete chunk accepted by the writer does not authenticate".into());
        }
        if !plain.starts_with(&pt) {
            return Err("decrypted accepted chunks are not a prefix of the fault-free plaintext".into());
        }
        Ok(())
    } else if full.starts_with(accepted) {
        Ok(())
    } else {
        Err("bytes accepted before the failure are not a prefix of the fault-free output".into())
    }
}

fn writer_faults(ctx: &mut Ctx, s: &Subject, v: &Val, full: &[u8], plain: &[u8], c: Container, rng: &mut Rng) {
    let e = s.e;
    let ver = e.version;
    for fail_at in 0..full.len() {
        let kind = HARD_KINDS[(fail_at + s.index) % HARD_KINDS.len()];
        let max_chunk = *rng.pick(&[usize::MAX, usize::MAX, 1, 5, 64]);
        let mut w = FaultyWriter::new(Some(fail_at), kind, max_chunk, 0);
        ctx.eval();
        ctx.count("write_fault_points");
        // save_to drops every savefile object (incl. CryptoWriter) before returning, inside catch_unwind
        let out = e.ops.save_to(v, ver, c, &mut w);
        let mk = |observed: String| {
            let mut j = case_json(&s.label, e.def, ver, v, None);
            j.push("container", J::s(c.name()));
            j.push("fail_at", J::i(fail_at));
            j.push("error_kind", J::s(format!("{:?}", kind)));
            j.push("max_chunk", J::s(format!("{}", max_chunk)));
            j.push("fault_free_len", J::i(full.len()));
            j.push("accepted_len", J::i(w.accepted.len()));
            j.push("observed", J::s(observed));
            j
        };
        match out {
            Outcome::Err(k, _) => {
                if k != "IOError" {
                    ctx.count("write_fault_other_error_kind");
                }
                match check_accepted_prefix(&w.accepted, full, plain, c) {
                    Ok(()) => {
                        ctx.count("write_fault_surfaced");
                        ctx.distinct(&format!("wf|{}|{}|{}", s.label, c.name(), (fail_at * 32) / full.len().max(1)));
                    }
                    Err(m) => ctx.violation("C08:accepted-bytes-not-a-prefix", &s.label, mk(m)),
                }
            }
            Outcome::Panic(m) => {
                let sig = if c == Container::CryptoMem && m.contains("implicit flush in the Drop of CryptoWriter") {
                    "C08:cryptowriter-drop-panics-after-failed-write"
                } else {
                    "C08:panic-on-write-fault"
                };
                ctx.violation(sig, &s.label, mk(format!("panic: {}", m)));
            }
            Outcome::Ok(()) => ctx.violation("C08:write-fault-swallowed", &s.label, mk("save returned Ok although the writer failed".into())),
        }
    }
}

fn writer_chunking(ctx: &mut Ctx, s: &Subject, v: &Val, full: &[u8], plain: &[u8], c: Container, rng: &mut Rng) {
    let e = s.e;
    let ver = e.version;
    for (max_chunk, intr) in [(1usize, 0usize), (1, 2), (2, 3), (3, 0), (7, 5), (17, 2), (rng.range(1, 40), rng.range(2, 6)), (usize::MAX, 2)] {
        let mut w = FaultyWriter::new(None, ErrorKind::Other, max_chunk, intr);
        ctx.eval();
        ctx.count("write_chunk_schedules");
        let out = e.ops.save_to(v, ver, c, &mut w);
        let mk = |observed: String| {
            let mut j = case_json(&s.label, e.def, ver, v, None);
            j.push("container", J::s(c.name()));
            j.push("max_chunk", J::s(format!("{}", max_chunk)));
            j.push("interrupt_every", J::i(intr));
            j.push("observed", J::s(observed));
            j
        };
        match out {
            Outcome::Ok(()) => {
                let same = if c == Container::CryptoMem {
                    let (pt, bad) = decrypt_frames(&w.accepted, &KEY);
                    !bad && pt == plain
                } else {
                    w.accepted == full
                };
                if same {
                    ctx.count("write_chunking_independent");
                    ctx.distinct(&format!("wc|{}|{}|{}|{}", s.label, c.name(), max_chunk.min(99), intr));
                } else {
                    ctx.violation("C08:bytes-depend-on-write-chunking", &s.label, mk(format!("{} bytes accepted, fault-free output has {}", w.accepted.len(), full.len())));
                }
            }
            o => ctx.violation("C08:short-write-or-interrupt-not-tolerated", &s.label, mk(o.brief())),
        }
    }
}

fn reader_chunking(ctx: &mut Ctx, s: &Subject, v: &Val, expected: &Val, full: &[u8], c: Container, rng: &mut Rng) {
    let e = s.e;
    let ver = e.version;
    let rand_chunks: Vec<usize> = (0..8).map(|_| rng.range(1, 23)).collect();
    for (chunks, intr) in [(vec![1usize], 0usize), (vec![1], 2), (vec![2, 3], 0), (vec![7], 3), (vec![1, 9, 2], 5), (rand_chunks, 4), (vec![], 2), (vec![4], 2)] {
        let mut r = ChunkyReader::new(full, chunks.clone(), intr, None, ErrorKind::Other);
        ctx.eval();
        ctx.count("read_chunk_schedules");
        let out = e.ops.load_from(&mut r, ver, c);
        let mk = |observed: String| {
            let mut j = case_json(&s.label, e.def, ver, v, Some(full));
            j.push("container", J::s(c.name()));
            j.push("chunk_sizes", J::s(format!("{:?}", chunks)));
            j.push("interrupt_every", J::i(intr));
            j.push("observed", J::s(observed));
            j
        };
        match out {
            Outcome::Ok(x) if &x == expected => {
                ctx.count("read_chunking_independent");
                ctx.distinct(&format!("rc|{}|{}|{:?}|{}", s.label, c.name(), chunks, intr));
            }
            Outcome::Ok(x) => ctx.violation("C08:value-depends-on-read-chunking", &s.label, mk(format!("loaded {}", model::val_brief(&x, 200)))),
            o => {
                let sig = if c == Container::CryptoMem && intr > 0 { "C08:cryptoreader-loses-bytes-on-interrupted-read" } else { "C08:load-depends-on-read-chunking" };
                ctx.violation(sig, &s.label, mk(o.brief()));
            }
        }
    }
}

fn reader_faults(ctx: &mut Ctx, s: &Subject, v: &Val, expected: &Val, full: &[u8], c: Container) {
    let e = s.e;
    let ver = e.version;
    for fail_at in 0..full.len() {
        let kind = HARD_KINDS[(fail_at + 1 + s.index) % HARD_KINDS.len()];
        let mut r = ChunkyReader::new(full, vec![], 0, Some(fail_at), kind);
        ctx.eval();
        ctx.count("read_fault_points");
        let out = e.ops.load_from(&mut r, ver, c);
        let mk = |observed: String| {
            let mut j = case_json(&s.label, e.def, ver, v, Some(full));
            j.push("container", J::s(c.name()));
            j.push("fail_at", J::i(fail_at));
            j.push("error_kind", J::s(format!("{:?}", kind)));
            j.push("observed", J::s(observed));
            j
        };
        match out {
            Outcome::Err(..) => {
                ctx.count("read_fault_surfaced");
                ctx.distinct(&format!("rf|{}|{}|{}", s.label, c.name(), (fail_at * 32) / full.len().max(1)));
            }
            Outcome::Panic(m) => ctx.violation("C08:panic-on-read-fault", &s.label, mk(format!("panic: {}", m))),
            Outcome::Ok(x) => {
                let trailer_only = c == Container::Compressed && fail_at + super::c07::BZ_TRAILER >= full.len();
                if &x == expected && trailer_only {
                    ctx.count("read_fault_in_container_trailer");
                } else {
                    ctx.violation("C08:read-fault-swallowed", &s.label, mk(format!("load returned Ok({}) although the reader failed", model::val_brief(&x, 120))));
                }
            }
        }
    }
}
