//! C14 Encrypted files load only when intact and with the right password.

use super::*;
use crate::ops::{Container, KEY, PASSWORD};

pub fn run(ctx: &mut Ctx, reg: &Registry) {
    let find = |name: &str| reg.types.iter().find(|e| e.name() == name);
    let mut rng = Rng::derive(ctx.seed, "c14");
    // (type, how many values)
    let names = ["u32", "String", "Vec<u8>", "Vec<String>", "(String, u8, bool)", "BTreeMap<u32, String>", "Option<String>"];
    let mut job = 0usize;
    for name in names {
        let Some(e) = find(name) else {
            ctx.inconclusive(format!("{} not in registry", name));
            continue;
        };
        let s = Subject { e, label: name.to_string(), index: 0 };
        let vals = gen_values(ctx, e, &mut rng, ctx.t(3, 4), 0);
        for v in vals.iter() {
            job += 1;
            if !ctx.mine(job) {
                continue;
            }
            // ---- in-memory crypto stream, every byte x every replacement value (files <= 300 bytes)
            if let Outcome::Ok(file) = e.ops.save(v, 0, Container::CryptoMem) {
                if matches!(e.ops.load(&file, 0, Container::CryptoMem), Outcome::Ok((ref x, _)) if x == v) {
                    ctx.count("crypto_streams");
                    ctx.sample("tampered-stream", {
                        let mut j = case_json(&s.label, "", 0, v, Some(&file));
                        j.push("modifications", J::s(if file.len() <= 120 || (!ctx.quick() && file.len() <= 300) { format!("every byte 0..{} x every other value; every truncation; key bit flips", file.len()) } else { format!("every byte 0..{} x 5 replacements; every truncation; key bit flips", file.len()) }));
                        j
                    });
                    let exhaustive = file.len() <= 300;
                    for pos in 0..file.len() {
                        let repls: Vec<u8> = if exhaustive && !ctx.quick() || (exhaustive && file.len() <= 120) {
                            (0..=255u8).filter(|b| *b != file[pos]).collect()
                        } else {
                            let o = file[pos];
                            let mut r = vec![o ^ 1, o ^ 0x80, 0x00, 0xff, o.wrapping_add(1)];
                            r.retain(|b| *b != o);
                            r.dedup();
                            r
                        };
                        for b in repls {
                            let mut f = file.clone();
                            f[pos] = b;
                            ctx.eval();
                            ctx.count("byte_replacements");
                            verdict(ctx, &s, v, e.ops.load(&f, 0, Container::CryptoMem).map(|x| x.0), &file, &format!("byte {} := {:#04x}", pos, b), "stream", region(pos, &file));
                        }
                    }
                    if exhaustive && (!ctx.quick() || file.len() <= 120) {
                        ctx.count("streams_with_every_byte_every_value");
                    }
                    for k in 0..file.len() {
                        ctx.eval();
                        ctx.count("truncations");
                        verdict(ctx, &s, v, e.ops.load(&file[..k], 0, Container::CryptoMem).map(|x| x.0), &file, &format!("truncated to {}", k), "stream", "cut");
                    }
                    // wrong keys
                    for i in 0..ctx.t(8, 64) {
                        let mut key = KEY;
                        key[i % 32] ^= 1 << (i % 8);
                        ctx.eval();
                        ctx.count("wrong_keys");
                        verdict(ctx, &s, v, e.ops.load_crypto_key(&file, 0, key), &file, &format!("key bit {} flipped", i), "stream", "key");
                    }
                }
            }
            // ---- file helpers: passwords, truncation, sampled replacements
            if let Outcome::Ok(file) = e.ops.save(v, 0, Container::EncryptedFile) {
                if matches!(e.ops.load_enc_pw(&file, 0, PASSWORD), Outcome::Ok(ref x) if x == v) {
                    ctx.count("encrypted_files");
                    ctx.sample("tampered-file", {
                        let mut j = case_json(&s.label, "", 0, v, Some(&file));
                        j.push("modifications", J::s("wrong passwords (prefix, suffix, case, empty, NUL-suffixed, random); every truncation; random bit flips"));
                        j
                    });
                    let mut pws: Vec<String> = vec![
                        "".into(),
                        PASSWORD[..PASSWORD.len() - 1].to_string(),
                        format!("{} ", PASSWORD),
                        format!(" {}", PASSWORD),
                        PASSWORD.to_uppercase(),
                        PASSWORD.replace(' ', ""),
                        format!("{}\0", PASSWORD),
                        "password".into(),
                    ];
                    for _ in 0..ctx.t(6, 60) {
                        let n = 1 + rng.below(12);
                        pws.push(crate::util::hex(&rng.bytes(n)));
                    }
                    for pw in pws {
                        ctx.eval();
                        ctx.count("wrong_passwords");
                        verdict(ctx, &s, v, e.ops.load_enc_pw(&file, 0, &pw), &file, &format!("password {:?}", pw), "file", "password");
                    }
                    for k in 0..file.len() {
                        ctx.eval();
                        ctx.count("truncations");
                        verdict(ctx, &s, v, e.ops.load_enc_pw(&file[..k], 0, PASSWORD), &file, &format!("truncated to {}", k), "file", "cut");
                    }
                    for _ in 0..ctx.t(40, 600) {
                        let pos = rng.below(file.len());
                        let mut f = file.clone();
                        f[pos] ^= 1 << rng.below(8);
                        ctx.eval();
                        ctx.count("byte_replacements");
                        verdict(ctx, &s, v, e.ops.load_enc_pw(&f, 0, PASSWORD), &file, &format!("byte {} bit flipped", pos), "file", region(pos, &file));
                    }
                }
            }
        }
    }
    // a two-chunk stream: positions in nonce, both length fields, both bodies, both tags
    if ctx.mine(0) {
        if let Some(e) = find("Vec<u8>") {
            let s = Subject { e, label: "Vec<u8>".into(), index: 0 };
            let v = Val::Seq(rng.bytes(100_200).into_iter().map(|b| Val::U(b as u128)).collect());
            if let Outcome::Ok(file) = e.ops.save(&v, 0, Container::CryptoMem) {
                let second = 12 + 8 + 100_000 + 16;
                let mut positions: Vec<usize> = (0..40).collect();
                positions.extend(second - 20..(second + 30).min(file.len()));
                positions.extend(file.len() - 20..file.len());
                for _ in 0..ctx.t(100, 2000) {
                    positions.push(rng.below(file.len()));
                }
                ctx.count("multi_chunk_streams");
                for pos in positions {
                    for m in [1u8, 0x80] {
                        let mut f = file.clone();
                        f[pos] ^= m;
                        ctx.eval();
                        ctx.count("byte_replacements");
                        verdict(ctx, &s, &Val::Unit, e.ops.load(&f, 0, Container::CryptoMem).map(|x| x.0), &[], &format!("two-chunk stream: byte {} ^= {:#x}", pos, m), "stream", region(pos, &file));
                    }
                }
            }
        }
    }
}

fn region(pos: usize, file: &[u8]) -> &'static str {
    if pos < 12 {
        "nonce"
    } else if pos < 20 {
        "chunk-length"
    } else if pos + 16 >= file.len() {
        "tag"
    } else {
        "ciphertext"
    }
}

fn verdict(ctx: &mut Ctx, s: &Subject, v: &Val, out: Outcome<Val>, file: &[u8], what: &str, api: &str, region: &str) {
    let mk = |observed: String| {
        let mut j = case_json(&s.label, s.e.def, 0, v, if file.is_empty() { None } else { Some(file) });
        j.push("modification", J::s(what));
        j.push("api", J::s(api));
        j.push("observed", J::s(observed));
        j
    };
    match out {
        Outcome::Err(kind, _) => {
            ctx.count("rejected");
            ctx.distinct(&format!("{}|{}|{}|{}", s.label, api, region, kind));
        }
        Outcome::Panic(m) => {
            let sig = if api == "file" && what.starts_with("truncated to ") && what[13..].parse::<usize>().map(|k| k < 12).unwrap_or(false) {
                "C14:panic-on-encrypted-file-shorter-than-nonce"
            } else {
                "C14:panic"
            };
            ctx.violation(sig, &s.label, mk(format!("panic: {}", m)));
        }
        Outcome::Ok(x) => ctx.violation("C14:modified-file-accepted", &s.label, mk(format!("load returned Ok({})", model::val_brief(&x, 200)))),
    }
}
