//! C05 Schema and header gate: data of a type with a different wire layout is
//! rejected with IncompatibleSchema (never loaded, never a panic); data of a
//! structurally identical type (struct / field names insignificant) is accepted.

use super::*;
use crate::model::FieldShape;
use crate::ops::Container;

/// Normal form of a wire layout, computed from the harness' own Shape (never from savefile's schema).
#[derive(Clone, Debug, PartialEq)]
pub enum Norm {
    Prim(&'static str),
    /// types whose schema node kind is particular to savefile (never claimed equal to anything but themselves)
    Special(&'static str),
    Zero,
    Vec(Box<Norm>),
    Opt(Box<Norm>),
    Array(usize, Box<Norm>),
    Struct(Vec<Norm>),
    /// width, variants (name, fields)
    Enum(u8, Vec<(String, Vec<Norm>)>),
}

fn norm_fields(fields: &[FieldShape], v: u32) -> Vec<Norm> {
    let mut out = vec![];
    for f in fields {
        if f.on_wire(v) {
            out.push(norm(&f.shape, v));
        } else if let Some(a) = f.alt_at(v) {
            out.push(norm(&a.shape, v));
        }
    }
    out
}

pub fn norm(s: &Shape, v: u32) -> Norm {
    match s {
        Shape::Unit => Norm::Zero,
        Shape::Bool => Norm::Prim("bool"),
        Shape::U8 => Norm::Prim("u8"),
        Shape::U16 => Norm::Prim("u16"),
        Shape::U32 => Norm::Prim("u32"),
        Shape::U64 | Shape::USize => Norm::Prim("u64"),
        Shape::U128 => Norm::Prim("u128"),
        Shape::I8 => Norm::Prim("i8"),
        Shape::I16 => Norm::Prim("i16"),
        Shape::I32 => Norm::Prim("i32"),
        Shape::I64 | Shape::ISize => Norm::Prim("i64"),
        Shape::I128 => Norm::Prim("i128"),
        Shape::F32 => Norm::Prim("f32"),
        Shape::F64 => Norm::Prim("f64"),
        Shape::Char => Norm::Prim("char"),
        Shape::Str | Shape::StrCap(_) => Norm::Prim("string"),
        Shape::Seq(inner, _) => Norm::Vec(Box::new(norm(inner, v))),
        Shape::Map(k, val, _) => Norm::Vec(Box::new(Norm::Struct(vec![norm(k, v), norm(val, v)]))),
        Shape::Opt(inner) => Norm::Opt(Box::new(norm(inner, v))),
        Shape::Res(a, b) => Norm::Enum(1, vec![("Ok".into(), vec![norm(a, v)]), ("Err".into(), vec![norm(b, v)])]),
        Shape::Array(n, inner) => Norm::Array(*n, Box::new(norm(inner, v))),
        Shape::Tuple(shapes) => Norm::Struct(shapes.iter().map(|x| norm(x, v)).collect()),
        Shape::Struct(_, fields) => Norm::Struct(norm_fields(fields, v)),
        Shape::Enum(_, w, variants) => Norm::Enum(*w, variants.iter().filter(|x| x.from <= v).map(|x| (x.name.clone(), norm_fields(&x.fields, v))).collect()),
        Shape::BitVec => Norm::Special("bitvec"),
        Shape::Canary => Norm::Special("canary"),
        Shape::Duration => Norm::Special("duration"),
        Shape::SysTime => Norm::Special("systime"),
        Shape::IoError => Norm::Special("ioerror"),
        Shape::Timestamp => Norm::Special("timestamp"),
    }
}

/// Token stream of the byte grammar with struct nesting and all names removed.
fn flatten(n: &Norm, out: &mut Vec<String>) {
    match n {
        Norm::Prim(p) => out.push(p.to_string()),
        // same bytes as a plain primitive, different schema node kind: never "different grammar"
        Norm::Special("duration") | Norm::Special("systime") => out.push("u128".to_string()),
        Norm::Special("timestamp") => out.push("i64".to_string()),
        Norm::Special("canary") => out.push("u32".to_string()),
        Norm::Special(p) => out.push(format!("special:{}", p)),
        Norm::Zero => {}
        Norm::Vec(i) => {
            out.push("vec[".into());
            flatten(i, out);
            out.push("]".into());
        }
        Norm::Opt(i) => {
            out.push("opt[".into());
            flatten(i, out);
            out.push("]".into());
        }
        Norm::Array(k, i) => {
            let mut inner = vec![];
            flatten(i, &mut inner);
            if !inner.is_empty() {
                for _ in 0..*k {
                    out.extend(inner.iter().cloned());
                }
            }
        }
        Norm::Struct(fs) => {
            for f in fs {
                flatten(f, out);
            }
        }
        Norm::Enum(w, vars) => {
            out.push(format!("enum{}[", w));
            for (_, fs) in vars {
                out.push("|".into());
                for f in fs {
                    flatten(f, out);
                }
            }
            out.push("]".into());
        }
    }
}

#[derive(Clone, Copy, Debug, PartialEq)]
pub enum Relation {
    MustAccept,
    MustReject,
    Unconstrained,
}

pub fn relate(saved: &Shape, loaded: &Shape, v: u32) -> Relation {
    let a = norm(saved, v);
    let b = norm(loaded, v);
    if a == b {
        return Relation::MustAccept;
    }
    let (mut fa, mut fb) = (vec![], vec![]);
    flatten(&a, &mut fa);
    flatten(&b, &mut fb);
    if fa != fb {
        Relation::MustReject
    } else {
        Relation::Unconstrained
    }
}

fn contains_special(s: &Shape) -> Vec<&'static str> {
    fn go(s: &Shape, out: &mut Vec<&'static str>) {
        match s {
            Shape::Seq(i, _) | Shape::Opt(i) | Shape::Array(_, i) => go(i, out),
            Shape::Map(a, b, unordered) => {
                if *unordered {
                    out.push("hashmap");
                }
                go(a, out);
                go(b, out)
            }
            Shape::Res(a, b) => {
                out.push("result");
                go(a, out);
                go(b, out)
            }
            Shape::Tuple(shapes) => shapes.iter().for_each(|x| go(x, out)),
            Shape::Struct(_, fields) => fields.iter().for_each(|f| go(&f.shape, out)),
            Shape::Enum(n, _, variants) => {
                if n == "SocketAddr" || n == "IpAddr" {
                    out.push("ipaddr/socketaddr");
                }
                variants.iter().for_each(|v| v.fields.iter().for_each(|f| go(&f.shape, out)))
            }
            Shape::BitVec => out.push("bitvec"),
            Shape::Duration | Shape::SysTime => out.push("time"),
            _ => {}
        }
    }
    let mut out = vec![];
    go(s, &mut out);
    out
}

pub fn run(ctx: &mut Ctx, reg: &Registry) {
    let subs = subjects(reg);
    let shapes: Vec<Shape> = subs.iter().map(|s| s.e.ops.shape()).collect();
    let nvals = ctx.t(3, 5);
    for (ti, s) in subs.iter().enumerate() {
        if !ctx.mine(s.index) || !ctx.wants_type(&s.label) {
            continue;
        }
        let e = s.e;
        let ver = e.version;
        let mut rng = Rng::derive(ctx.seed, &format!("c05/{}", s.label));
        let vals = gen_values(ctx, e, &mut rng, nvals, ver);
        let mut files = vec![];
        for v in vals.iter() {
            if let (Outcome::Ok(b), Ok(p)) = (e.ops.save(v, ver, Container::Plain), model::encode(v, &shapes[ti], ver)) {
                // only use files that are faithful to the reference encoding (otherwise C02 reports it)
                if b.ends_with(&p) {
                    files.push((v.clone(), b, p));
                }
            }
        }
        if files.is_empty() {
            continue;
        }
        ctx.count("saved_types");
        for (ui, u) in subs.iter().enumerate() {
            let lver = u.e.version.max(ver);
            let mut rel = relate(&shapes[ti], &shapes[ui], ver);
            // IndexSet's schema wraps each element in a one-field struct ("Key"), like a newtype:
            // same bytes as any other sequence, different node structure => no verdict either way
            if rel == Relation::MustAccept && (s.label.contains("IndexSet") != u.label.contains("IndexSet")) {
                rel = Relation::Unconstrained;
            }
            ctx.count(match rel {
                Relation::MustAccept => "pairs_must_accept",
                Relation::MustReject => "pairs_must_reject",
                Relation::Unconstrained => "pairs_unconstrained",
            });
            for (v, file, payload) in files.iter() {
                ctx.eval();
                let out = u.e.ops.load(file, lver, Container::Plain);
                let pair = format!("{} -> {}", s.label, u.label);
                let mk = |observed: String| {
                    let mut j = case_json(&pair, e.def, ver, v, Some(file));
                    j.push("loaded_as", J::s(u.label.clone()));
                    j.push("loaded_definition", J::s(u.e.def));
                    j.push("relation", J::s(format!("{:?}", rel)));
                    j.push("observed", J::s(observed));
                    j
                };
                // recorded schema-infidelity findings (C12) leak into the gate: name them precisely
                let infidelity = |sh_a: &Shape, sh_b: &Shape| -> Option<String> {
                    let mut k = contains_special(sh_a);
                    k.extend(contains_special(sh_b));
                    k.sort();
                    k.dedup();
                    if k.is_empty() {
                        None
                    } else {
                        Some(k.join("+"))
                    }
                };
                match (&out, rel) {
                    (Outcome::Panic(m), _) => ctx.violation("C05:panic", &pair, mk(format!("panic: {}", m))),
                    (Outcome::Ok((lv, _)), Relation::MustReject) => {
                        let sig = match infidelity(&shapes[ti], &shapes[ui]) {
                            Some(k) => format!("C05:accepted-different-layout[unfaithful-schema:{}]", k),
                            None => "C05:accepted-different-layout".to_string(),
                        };
                        ctx.violation(&sig, &pair, mk(format!("load returned Ok({})", model::val_brief(lv, 200))));
                    }
                    (Outcome::Ok((lv, _)), Relation::MustAccept) => {
                        match model::decode(payload, &shapes[ui], ver).map(|x| (u.e.ops.normalize(&x.0), x.1)) {
                            Ok((expect, _)) if &expect == lv => {
                                ctx.count("accepted_and_value_as_reference");
                                ctx.distinct(&format!("accept|{}|{}", s.label, u.label));
                            }
                            other => ctx.violation("C05:accepted-but-misread", &pair, mk(format!("loaded {} but reference decoding gives {:?}", model::val_brief(lv, 200), other.map(|x| model::val_brief(&x.0, 200))))),
                        }
                    }
                    (Outcome::Err(..), Relation::MustAccept) if model::decode(payload, &shapes[ui], ver).is_err() => {
                        // identical layout, but this particular value does not fit the loading type
                        // (ArrayVec / ArrayString capacity): an error is the correct outcome
                        ctx.count("identical_layout_value_does_not_fit");
                    }
                    (Outcome::Err(kind, msg), Relation::MustAccept) => {
                        let sig = match infidelity(&shapes[ti], &shapes[ui]) {
                            Some(k) if msg.contains("ecursion") => format!("C05:rejected-identical-layout[unfaithful-schema:{}]", k),
                            _ => "C05:rejected-identical-layout".to_string(),
                        };
                        ctx.violation(&sig, &pair, mk(format!("{}: {}", kind, msg)));
                    }
                    (Outcome::Err(kind, msg), Relation::MustReject) => {
                        if kind == "IncompatibleSchema" {
                            ctx.count("rejected_with_schema_error");
                            ctx.distinct(&format!("reject|{}|{}", s.label, u.label));
                            if ctx.evaluations % 4999 == 7 {
                                ctx.sample("rejected", mk(format!("{}: {}", kind, msg)));
                            }
                        } else {
                            let sig = match infidelity(&shapes[ti], &shapes[ui]) {
                                Some(k) => format!("C05:rejected-with-other-error[unfaithful-schema:{}]", k),
                                None => "C05:rejected-with-other-error".to_string(),
                            };
                            ctx.violation(&sig, &pair, mk(format!("{}: {}", kind, msg)));
                        }
                    }
                    (Outcome::Ok(_), Relation::Unconstrained) => ctx.count("unconstrained_accepted"),
                    (Outcome::Err(..), Relation::Unconstrained) => ctx.count("unconstrained_rejected"),
                }
            }
        }
        // header gate
        if ti % 7 == 0 {
            header_gate(ctx, s, &files[0].1, &files[0].0);
        }
    }
}

fn header_gate(ctx: &mut Ctx, s: &Subject, file: &[u8], v: &Val) {
    let e = s.e;
    let ver = e.version;
    for pos in 0..16usize {
        for repl in [0u8, 1, 2, 3, 0x7f, 0x80, 0xff, file[pos] ^ 1, file[pos] ^ 0x80] {
            if repl == file[pos] {
                continue;
            }
            let mut f = file.to_vec();
            f[pos] = repl;
            let lib = u16::from_le_bytes([f[9], f[10]]);
            let dver = u32::from_le_bytes([f[11], f[12], f[13], f[14]]);
            let magic_ok = &f[..9] == b"savefile\0";
            let must_reject_limit = if !magic_ok {
                Some(9)
            } else if lib > 2 {
                Some(11)
            } else if dver > ver {
                Some(15)
            } else {
                None
            };
            ctx.eval();
            let out = e.ops.load(&f, ver, Container::Plain);
            let mk = |observed: String| {
                let mut j = case_json(&s.label, e.def, ver, v, Some(&f));
                j.push("header_byte", J::i(pos));
                j.push("replacement", J::i(repl));
                j.push("observed", J::s(observed));
                j
            };
            match (&out, must_reject_limit) {
                (Outcome::Panic(m), _) => ctx.violation("C05:header-panic", &s.label, mk(format!("panic: {}", m))),
                (Outcome::Ok(_), Some(_)) => ctx.violation("C05:bad-header-accepted", &s.label, mk("load returned Ok".into())),
                (Outcome::Err(..), Some(limit)) => {
                    // the reader position is not reported on error; re-run through a counting reader
                    let mut r = crate::ops::CountingReader { data: &f, pos: 0 };
                    let _ = e.ops.load_from(&mut r, ver, Container::Plain);
                    if r.pos > limit {
                        ctx.violation("C05:payload-read-before-header-rejected", &s.label, mk(format!("{} bytes consumed before rejecting (header field ends at {})", r.pos, limit)));
                    } else {
                        ctx.count("bad_header_rejected_early");
                        ctx.distinct(&format!("hdr|{}|{}|{}", s.label, pos, repl));
                    }
                }
                _ => ctx.count("header_mutation_tolerated"),
            }
        }
    }
}
