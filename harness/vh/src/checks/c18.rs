//! C18 Writing an older version yields data the older definition reads.

use super::*;

pub fn run(ctx: &mut Ctx, reg: &Registry) {
    let nvals = nvals(ctx, 40, 80);
    for (fi, fam) in reg.families.iter().enumerate() {
        if !ctx.mine(fi) || !ctx.wants_type(fam.name) {
            continue;
        }
        if !fam.abi_writable {
            ctx.count("families_skipped_not_writable");
            continue;
        }
        ctx.count("families");
        let n = fam.versions.len();
        for j in 0..n {
            let ej = &fam.versions[j];
            let shape_j = ej.ops.shape();
            for k in 0..=j {
                let ek = &fam.versions[k];
                let shape_k = ek.ops.shape();
                let mut rng = Rng::derive(ctx.seed, &format!("c18/{}/{}/{}", fam.name, j, k));
                // values of definition j restricted to what version k can express (enum variants)
                let vals = gen_values(ctx, ej, &mut rng, nvals, k as u32);
                let label = format!("{}@v{}=>v{}", fam.name, j, k);
                ctx.count("version_pairs");
                // packed decision at the older version must be consistent with the wire layout then
                let packed_k = ej.ops.packed(k as u32);
                if packed_k {
                    ctx.count("packed_at_older_version");
                    let fs = model::fixed_size(&shape_j, k as u32);
                    if fs != Some(ej.ops.size_of()) {
                        ctx.violation(
                            "C18:packed-for-version-with-different-layout",
                            &label,
                            J::obj(vec![
                                ("definition", J::s(ej.def)),
                                ("version", J::i(k)),
                                ("size_of", J::i(ej.ops.size_of())),
                                ("wire_size_at_version", J::s(format!("{:?}", fs))),
                                ("edits", J::s(fam.edits)),
                            ]),
                        );
                    }
                }
                for v in vals.iter() {
                    ctx.eval();
                    ctx.distinct(&format!("{}|{}=>{}|{}", fam.name, j, k, model::val_class(v)));
                    let reference = match model::encode(v, &shape_j, k as u32) {
                        Ok(b) => b,
                        Err(_) => {
                            // a nested type uses Removed<T> (documented: cannot be written at that version)
                            ctx.count("not_writable_at_older_version");
                            continue;
                        }
                    };
                    let expected = match model::decode(&reference, &shape_k, k as u32) {
                        Ok((x, used)) if used == reference.len() => x,
                        other => {
                            ctx.inconclusive(format!("generator inconsistency {}: {:?}", label, other.map(|x| x.1)));
                            continue;
                        }
                    };
                    let mk = |observed: String, bytes: &[u8]| {
                        let mut jv = case_json(&label, ej.def, j as u32, v, Some(bytes));
                        jv.push("written_at_version", J::i(k));
                        jv.push("read_by_definition", J::s(ek.def));
                        jv.push("edits", J::s(fam.edits));
                        jv.push("reference_bytes_hex", J::s(hex_trunc(&reference, 96)));
                        jv.push("expected_value", J::s(model::val_brief(&expected, 300)));
                        jv.push("observed", J::s(observed));
                        jv
                    };
                    let bytes = match ej.ops.bare_ser(v, k as u32) {
                        Outcome::Ok(b) => b,
                        o => {
                            ctx.violation("C18:serialize-failed", &label, mk(o.brief(), &[]));
                            continue;
                        }
                    };
                    if model::deterministic(&shape_j) && bytes != reference {
                        ctx.violation("C18:bytes-differ", &label, mk("bytes written for the older version differ from the reference encoding".into(), &bytes));
                        continue;
                    }
                    match ek.ops.bare_de(&bytes, k as u32) {
                        Outcome::Ok((lv, used)) => {
                            if lv != expected || used != bytes.len() {
                                ctx.violation("C18:older-definition-misreads", &label, mk(format!("read {} (consumed {}/{})", model::val_brief(&lv, 300), used, bytes.len()), &bytes));
                            } else {
                                ctx.count("downgrade_ok");
                                if k != j {
                                    ctx.count("cross_version_ok");
                                }
                                if ctx.evaluations % 299 == 5 && k != j {
                                    ctx.sample("downgrade", mk("older definition read the expected value".into(), &bytes));
                                }
                            }
                        }
                        o => ctx.violation("C18:older-definition-rejects", &label, mk(o.brief(), &bytes)),
                    }
                }
            }
        }
    }
}
