//! C07 Truncated files are never accepted as different data: every strict
//! prefix of a saved file must fail to load, or (only when nothing but trailing
//! container bytes are missing) load to the original value.

use super::*;
use crate::ops::Container;

/// bzip2 ends with a 48 bit end-of-stream marker and a 32 bit CRC (plus bit padding): the
/// decoder has delivered all data before it has seen those, so cuts inside them may still load.
pub const BZ_TRAILER: usize = 11;

pub fn run(ctx: &mut Ctx, reg: &Registry) {
    let subs = subjects(reg);
    let nvals = ctx.t(3, 6);
    let stride = ctx.t(1, 1);
    for s in subs.iter() {
        if !ctx.mine(s.index) || !ctx.wants_type(&s.label) {
            continue;
        }
        let e = s.e;
        let ver = e.version;
        let shape = e.ops.shape();
        let mut rng = Rng::derive(ctx.seed, &format!("c07/{}", s.label));
        let vals = gen_values(ctx, e, &mut rng, nvals, ver);
        for (vi, v) in vals.iter().enumerate() {
            let Ok(payload) = model::encode(v, &shape, ver) else { continue };
            let Ok((expected, _)) = model::decode(&payload, &shape, ver) else { continue };
            for (ci, c) in [Container::Plain, Container::NoSchema, Container::Compressed, Container::CryptoMem, Container::EncryptedFile].into_iter().enumerate() {
                if c == Container::EncryptedFile {
                    if vi > 0 || (ctx.quick() && ctx.type_filter.is_none() && s.index % 9 != 0) {
                        continue; // file based: slow
                    }
                } else if ctx.type_filter.is_none() && (s.index + ci + vi) % stride != 0 && c != Container::NoSchema {
                    continue;
                }
                let Outcome::Ok(file) = e.ops.save(v, ver, c) else { continue };
                // only files that load back correctly are meaningful here (C01 reports the others)
                match e.ops.load(&file, ver, c) {
                    Outcome::Ok((x, _)) if x == expected => {}
                    _ => continue,
                }
                if file.len() > 6000 {
                    continue;
                }
                ctx.count(&format!("files:{}", c.name()));
                ctx.sample(&format!("truncated-file:{}", c.name()), {
                    let mut j = case_json(&s.label, e.def, ver, v, Some(&file));
                    j.push("container", J::s(c.name()));
                    j.push("cuts_tried", J::s(format!("every offset 0..{}", file.len())));
                    j
                });
                truncations(ctx, s, v, &expected, &file, c, 0..file.len());
                ctx.count("files_exhaustively_truncated");
            }
        }
    }
    if ctx.mine(1) {
        big_crypto(ctx, reg);
    }
}

pub fn truncations(ctx: &mut Ctx, s: &Subject, v: &Val, expected: &Val, file: &[u8], c: Container, cuts: impl Iterator<Item = usize>) {
    let e = s.e;
    let ver = e.version;
    for k in cuts {
        ctx.eval();
        ctx.count("cuts");
        let out = e.ops.load(&file[..k], ver, c);
        let mk = |observed: String| {
            let mut j = case_json(&s.label, e.def, ver, v, Some(file));
            j.push("container", J::s(c.name()));
            j.push("cut_at", J::i(k));
            j.push("file_len", J::i(file.len()));
            j.push("observed", J::s(observed));
            j
        };
        match out {
            Outcome::Err(kind, _) => {
                ctx.count("prefix_rejected");
                if k >= 16 {
                    ctx.distinct(&format!("{}|{}|{}|{}", s.label, c.name(), kind, (k * 16) / file.len().max(1)));
                }
            }
            Outcome::Panic(m) => {
                let sig = if c == Container::EncryptedFile && k < 12 { "C07:panic-on-encrypted-file-shorter-than-nonce" } else { "C07:panic" };
                ctx.violation(sig, &s.label, mk(format!("panic: {}", m)));
            }
            Outcome::Ok((x, _)) => {
                if &x != expected {
                    ctx.violation("C07:prefix-accepted-as-different-value", &s.label, mk(format!("load returned {}", model::val_brief(&x, 300))));
                } else {
                    let allowed = c == Container::Compressed && k + BZ_TRAILER >= file.len();
                    if allowed {
                        ctx.count("prefix_missing_only_container_trailer");
                    } else {
                        ctx.violation("C07:prefix-accepted", &s.label, mk("load of a strict prefix returned the original value although payload bytes are missing".into()));
                    }
                }
            }
        }
    }
}

/// multi-chunk encrypted stream: cuts around every frame boundary and random cuts
fn big_crypto(ctx: &mut Ctx, reg: &Registry) {
    let Some(e) = reg.types.iter().find(|e| e.name() == "Vec<u8>") else { return };
    let s = Subject { e, label: "Vec<u8>".into(), index: 0 };
    let mut rng = Rng::derive(ctx.seed, "c07/big");
    for (len, cont) in [
        (99_950usize, Container::CryptoMem),
        (100_100, Container::CryptoMem),
        (250_000, Container::CryptoMem),
        // save_encrypted_file compresses first: incompressible payloads keep several frames
        (100_100, Container::EncryptedFile),
        (330_000, Container::EncryptedFile),
    ] {
        let v = Val::Seq(rng.bytes(len).into_iter().map(|b| Val::U(b as u128)).collect());
        let Outcome::Ok(file) = e.ops.save(&v, 0, cont) else { continue };
        // frame boundaries, computed from the documented framing (12 byte nonce, then u64 length + body)
        let mut bounds = vec![0usize, 12];
        let mut p = 12;
        while p + 8 <= file.len() {
            let l = u64::from_le_bytes(file[p..p + 8].try_into().unwrap()) as usize;
            bounds.push(p + 8);
            p += 8 + l;
            bounds.push(p.min(file.len()));
        }
        ctx.count_n("crypto_frames", (bounds.len() as u64 - 2) / 2);
        let mut cuts: Vec<usize> = vec![];
        for b in bounds {
            for d in 0..ctx.t(12usize, 40) {
                if b + d < file.len() {
                    cuts.push(b + d);
                }
                if b >= d && b - d < file.len() {
                    cuts.push(b - d);
                }
            }
        }
        for _ in 0..ctx.t(40, 400) {
            cuts.push(rng.below(file.len()));
        }
        cuts.sort();
        cuts.dedup();
        truncations(ctx, &s, &Val::Unit, &v, &file, cont, cuts.into_iter());
    }
}
