//! C06 Malformed input is handled safely: no UB, no panic, no oversized results.
//!
//! Parent mode spawns one child process per subject (address-space limited, so that a
//! declared absurd length ends in an allocation failure rather than in swapping); the child
//! journals every input before feeding it to the real deserializer, so a process death is
//! attributed to the exact input. Under Miri (no process spawning) everything runs in-process.

use super::*;
use crate::model::{Mark, MarkKind};
use crate::ops::Container;
use std::io::Write;

#[derive(Clone)]
pub struct Input {
    pub entry: &'static str, // bare | noschema | plain
    pub bytes: Vec<u8>,
    pub desc: String,
    /// the reference decoder stops at a declared count of millions of elements that have no wire form
    pub huge_count_of_empty_elements: bool,
}

fn put_u64(b: &mut Vec<u8>, off: usize, v: u64) {
    if off + 8 <= b.len() {
        b[off..off + 8].copy_from_slice(&v.to_le_bytes());
    }
}

pub fn structured_mutants(payload: &[u8], marks: &[Mark], rng: &mut Rng, per_mark: usize) -> Vec<(Vec<u8>, String)> {
    let mut out = vec![];
    for m in marks {
        let off = m.offset;
        let mut cands: Vec<(Vec<u8>, String)> = vec![];
        match m.kind {
            MarkKind::Len(_) | MarkKind::StrLen => {
                let cur = if off + 8 <= payload.len() { u64::from_le_bytes(payload[off..off + 8].try_into().unwrap()) } else { 0 };
                let mut vals: Vec<u64> = vec![0, 1, cur.wrapping_add(1), cur.wrapping_sub(1), cur + 1000, 1 << 20, 1_000_001, 1 << 31, 1 << 32, (1 << 61) + 1, 1 << 63, u64::MAX, u64::MAX - 7];
                for s in [1u64, 2, 3, 4, 5, 6, 8, 12, 16, 24, 32] {
                    // counts that make count * element_size wrap around to a small number
                    let q = (u64::MAX / s).wrapping_add(1);
                    vals.push(q);
                    vals.push(q.wrapping_add(1));
                    vals.push(q.wrapping_add(cur));
                }
                for v in vals {
                    if v == cur {
                        continue;
                    }
                    let mut b = payload.to_vec();
                    put_u64(&mut b, off, v);
                    cands.push((b, format!("length@{} {} -> {}", off, cur, v)));
                }
            }
            MarkKind::Tag => {
                for v in [2u8, 3, 0x7f, 0x80, 0xff] {
                    let mut b = payload.to_vec();
                    if off < b.len() {
                        b[off] = v;
                        cands.push((b, format!("tag@{} -> {}", off, v)));
                    }
                }
            }
            MarkKind::Bool => {
                for v in [2u8, 3, 0x80, 0xff] {
                    let mut b = payload.to_vec();
                    if off < b.len() {
                        b[off] = v;
                        cands.push((b, format!("bool@{} -> {}", off, v)));
                    }
                }
            }
            MarkKind::Char => {
                for v in [0xD800u32, 0xDFFF, 0x110000, 0xFFFFFFFF, 0x80000000] {
                    let mut b = payload.to_vec();
                    if off + 4 <= b.len() {
                        b[off..off + 4].copy_from_slice(&v.to_le_bytes());
                        cands.push((b, format!("char@{} -> {:#x}", off, v)));
                    }
                }
            }
            MarkKind::Discr(w, nv) => {
                for v in [nv, nv + 1, 0xff, 0xffff, 0xffff_ffff, nv.wrapping_sub(1) ^ 0x80] {
                    let mut b = payload.to_vec();
                    let w = w as usize;
                    if off + w <= b.len() {
                        b[off..off + w].copy_from_slice(&v.to_le_bytes()[..w]);
                        cands.push((b, format!("discriminant@{} -> {}", off, v)));
                    }
                }
            }
            MarkKind::Special => {
                for (fill, n) in [(0xffu8, 16usize), (0xff, 8), (0x00, 16), (0x80, 16), (0x7f, 16)] {
                    let mut b = payload.to_vec();
                    for i in 0..n {
                        if off + i < b.len() {
                            b[off + i] = fill;
                        }
                    }
                    cands.push((b, format!("special@{} fill {:#x} x{}", off, fill, n)));
                }
                // top byte variations (sign bit of system time, flag bit of bit-vec byte count)
                for pos in [7usize, 15] {
                    for v in [0x80u8, 0xff, 0x7f, 0x00] {
                        let mut b = payload.to_vec();
                        if off + pos < b.len() {
                            b[off + pos] = v;
                            cands.push((b, format!("special@{} byte {} -> {:#x}", off, pos, v)));
                        }
                    }
                }
                // small inconsistencies between the first word (bit count / seconds) and the second (byte count)
                for (word, deltas) in [(0usize, [1i64, -1, 7, 8, -8, 31, 32, 33, -32]), (8usize, [1i64, -1, 2, -2, 3, -3, 4, -4, 5])] {
                    for d in deltas {
                        let mut b = payload.to_vec();
                        if off + word < b.len() {
                            // low byte only: keeps flag bits in the top byte intact
                            b[off + word] = (b[off + word] as i64).wrapping_add(d) as u8;
                            cands.push((b, format!("special@{} word {} low byte {:+}", off, word / 8, d)));
                        }
                    }
                }
                // bit-vec: huge bit count with honest storage
                let mut b = payload.to_vec();
                put_u64(&mut b, off, 1000);
                cands.push((b, format!("special@{} first word -> 1000", off)));
                let mut b = payload.to_vec();
                put_u64(&mut b, off, u64::MAX);
                cands.push((b, format!("special@{} first word -> u64::MAX", off)));
            }
        }
        // keep a bounded random subset per mark
        // special payloads (time stamps, bit vectors) are rare subjects with many interesting mutants
        let keep = if matches!(m.kind, MarkKind::Special) { per_mark * 6 } else { per_mark };
        while cands.len() > keep {
            let i = rng.below(cands.len());
            cands.swap_remove(i);
        }
        out.extend(cands);
    }
    out
}

pub fn random_mutants(payload: &[u8], rng: &mut Rng, n: usize) -> Vec<(Vec<u8>, String)> {
    let mut out = vec![];
    for i in 0..n {
        let mut b = payload.to_vec();
        match i % 5 {
            0 => {
                let k = 1 + rng.below(4);
                for _ in 0..k {
                    if !b.is_empty() {
                        let p = rng.below(b.len());
                        b[p] = rng.next_u64() as u8;
                    }
                }
                out.push((b, format!("{} random byte(s) replaced", k)));
            }
            1 => {
                if !b.is_empty() {
                    let p = rng.below(b.len());
                    b[p] ^= 1 << rng.below(8);
                }
                out.push((b, "one bit flipped".into()));
            }
            2 => {
                let cut = rng.below(b.len() + 1);
                b.truncate(cut);
                let ext = rng.below(24);
                b.extend(rng.bytes(ext));
                out.push((b, format!("truncated to {} and extended by {} random bytes", cut, ext)));
            }
            3 => {
                let l = rng.below(64);
                out.push((rng.bytes(l), format!("{} random bytes", l)));
            }
            _ => {
                // splice: overwrite a window with 0xff / 0x00
                if !b.is_empty() {
                    let p = rng.below(b.len());
                    let w = 1 + rng.below(12);
                    let fill = *rng.pick(&[0xffu8, 0x00, 0x80, 0x01]);
                    for q in p..(p + w).min(b.len()) {
                        b[q] = fill;
                    }
                }
                out.push((b, "window overwritten".into()));
            }
        }
    }
    out
}

pub fn inputs_for(s: &Subject, seed: u64, quick: bool) -> Vec<Input> {
    let e = s.e;
    let ver = e.version;
    let shape = e.ops.shape();
    let mut rng = Rng::derive(seed, &format!("c06/{}", s.label));
    let mut out: Vec<Input> = vec![];
    let nvals = if slow_build() { 1 } else if quick { 3 } else { 5 };
    let per_mark = if slow_build() { 3 } else if quick { 4 } else { 12 };
    let mut bases = 0;
    let mut tries = 0;
    while bases < nvals && tries < nvals * 3 {
        tries += 1;
        let budget = *rng.pick(&[3usize, 10, 30]);
        let g = model::gen_val(&shape, &mut rng, &GenCfg { budget, version: ver });
        let Ok(v) = catch(|| e.ops.normalize(&g)) else { break };
        let Ok((payload, marks)) = model::encode_marked(&v, &shape, ver) else { continue };
        bases += 1;
        let mut marks = marks;
        // bound work on big values: sample marks
        while marks.len() > if quick { 12 } else { 30 } {
            let i = rng.below(marks.len());
            marks.swap_remove(i);
        }
        let mut muts = structured_mutants(&payload, &marks, &mut rng, per_mark);
        muts.extend(random_mutants(&payload, &mut rng, if quick { 10 } else { 40 }));
        if cfg!(miri) {
            // The interpreter aborts the whole shard ("resource exhaustion") where a native build gets a failed
            // allocation: inputs whose first defect is a declared length of millions of elements are left to the
            // native builds (which run them in address-space-limited children).
            muts.retain(|(b, _)| match model::decode(b, &shape, ver) {
                Err(m) => !m.contains("absurd number of zero-sized") && !m.split(|c: char| !c.is_ascii_digit()).filter_map(|t| t.parse::<u128>().ok()).any(|n| n >= (1 << 22)),
                Ok(_) => true,
            });
        }
        let hdr = super::c02::header(2, ver, false);
        for (i, (b, d)) in muts.into_iter().enumerate() {
            let hz = matches!(model::decode(&b, &shape, ver), Err(m) if m.contains("absurd number of zero-sized"));
            let entry = match i % 4 {
                0 | 1 => "bare",
                2 => "noschema",
                _ => "plain",
            };
            match entry {
                "bare" => out.push(Input { entry: "bare", bytes: b, desc: d, huge_count_of_empty_elements: hz }),
                "noschema" => {
                    let mut f = hdr.clone();
                    f.extend_from_slice(&b);
                    out.push(Input { entry: "noschema", bytes: f, desc: d, huge_count_of_empty_elements: hz });
                }
                _ => {
                    // real schema section (from a valid file) followed by the mutated payload
                    if let Outcome::Ok(file) = e.ops.save(&v, ver, Container::Plain) {
                        if file.len() >= payload.len() && file.ends_with(&payload) {
                            let mut f = file[..file.len() - payload.len()].to_vec();
                            f.extend_from_slice(&b);
                            out.push(Input { entry: "plain", bytes: f, desc: d, huge_count_of_empty_elements: hz });
                        }
                    }
                }
            }
        }
        // schema-section mutations of a valid file
        if let Outcome::Ok(file) = e.ops.save(&v, ver, Container::Plain) {
            let schema_end = file.len().saturating_sub(payload.len());
            // (schema sections declare lengths too: under the interpreter they are left to the native builds)
            if schema_end > 17 && !cfg!(miri) {
                for k in 0..if quick { 12 } else { 40 } {
                    let mut f = file.clone();
                    let p = 16 + rng.below(schema_end - 16);
                    let what;
                    match k % 4 {
                        0 => {
                            f[p] = rng.next_u64() as u8;
                            what = "random byte";
                        }
                        1 => {
                            f[p] ^= 1 << rng.below(8);
                            what = "bit flip";
                        }
                        2 => {
                            f[p] = 0xff;
                            what = "0xff";
                        }
                        _ => {
                            f[p] = *rng.pick(&[b'+', b'S', 0, 1, 2, 0x80]);
                            what = "picked byte";
                        }
                    }
                    out.push(Input { entry: "plain", bytes: f, desc: format!("schema section byte {} {}", p, what), huge_count_of_empty_elements: false });
                }
            }
        }
    }
    out
}

fn classify_panic(msg: &str) -> Option<&'static str> {
    let m = msg.to_lowercase();
    if m.contains("failed to allocate") || m.contains("capacity overflow") || m.contains("memory allocation") || m.contains("alloc") && m.contains("fail") {
        return None; // genuine out-of-memory on a declared length: exempt by the property statement
    }
    Some(if m.contains("overflow when adding duration") || m.contains("overflow when subtracting duration") {
        "C06:panic-systemtime-arithmetic"
    } else if m.contains("unexpected trait name") {
        "C06:panic-schema-trait-name"
    } else if m.contains("futures are only supported in return position") {
        "C06:panic-schema-future-outside-return-position"
    } else {
        "C06:panic"
    })
}

fn contains_bulk(s: &Shape) -> bool {
    match s {
        Shape::Seq(..) | Shape::Array(..) => true,
        Shape::Opt(i) => contains_bulk(i),
        Shape::Map(a, b, _) | Shape::Res(a, b) => contains_bulk(a) || contains_bulk(b),
        Shape::Tuple(shapes) => shapes.iter().any(contains_bulk),
        Shape::Struct(_, fields) => fields.iter().any(|f| contains_bulk(&f.shape)),
        Shape::Enum(_, _, variants) => variants.iter().any(|v| v.fields.iter().any(|f| contains_bulk(&f.shape))),
        _ => false,
    }
}

/// Feed one input to the real code and judge the outcome.
pub fn judge(ctx: &mut Ctx, s: &Subject, inp: &Input) {
    let e = s.e;
    let ver = e.version;
    ctx.eval();
    ctx.count(&format!("entry:{}", inp.entry));
    let mk = |observed: String| {
        J::obj(vec![
            ("type", J::s(s.label.clone())),
            ("definition", J::s(e.def)),
            ("entry_point", J::s(inp.entry)),
            ("mutation", J::s(inp.desc.clone())),
            ("input_hex", J::s(hex_trunc(&inp.bytes, 160))),
            ("input_len", J::i(inp.bytes.len())),
            ("observed", J::s(observed)),
        ])
    };
    let class = inp.desc.split('@').next().unwrap_or("").split(' ').next().unwrap_or("").to_string();
    let result = match inp.entry {
        "bare" => e.ops.bare_de_inspect(&inp.bytes, ver),
        "noschema" => e.ops.load_inspect(&inp.bytes, ver, Container::NoSchema),
        _ => e.ops.load_inspect(&inp.bytes, ver, Container::Plain),
    };
    match "bare" {
        "bare" => match result {
            Outcome::Ok(ins) => {
                if ins.claimed_elems > inp.bytes.len() as u128 {
                    let sig = if e.ops.shape() == Shape::BitVec { "C06:bitvec-claims-more-bits-than-stored" } else { "C06:collection-larger-than-input" };
                    ctx.violation(sig, &s.label, mk(format!("returned value claims {} elements from {} input bytes", ins.claimed_elems, inp.bytes.len())));
                } else if ins.walk_skipped {
                    ctx.count("returned_value_too_large_to_walk");
                } else if ins.val.is_none() && ins.valid_bits {
                    ctx.violation("C06:returned-value-cannot-be-used", &s.label, mk("walking or dropping the returned value panicked".into()));
                } else if !ins.valid_bits {
                    let sig = if contains_bulk(&e.ops.shape()) { "C06:bulk-read-accepts-invalid-bool-char-or-enum-tag" } else { "C06:invalid-bit-pattern" };
                    ctx.violation(sig, &s.label, mk("returned value contains an invalid bool / char / enum bit pattern".into()));
                } else {
                    ctx.count("returned_value");
                    ctx.distinct(&format!("{}|{}|{}|ok", s.label, inp.entry, class));
                }
            }
            Outcome::Err(kind, _) => {
                ctx.count("returned_error");
                ctx.distinct(&format!("{}|{}|{}|{}", s.label, inp.entry, class, kind));
            }
            Outcome::Panic(m) => match classify_panic(&m) {
                None => ctx.count("exempt_allocation_failure"),
                Some(sig) => ctx.violation(sig, &s.label, mk(format!("panic: {}", m))),
            },
        },
        _ => unreachable!(),
    }
}

/// Does the type contain a collection whose elements have no wire form (`VecDeque<()>`, `HashSet<Empty>` ...)?
/// For such a type any input that puts garbage where that collection's count is read makes the element-wise
/// reader loop without consuming input (recorded finding #28).
fn has_collection_of_empty_elements(s: &Shape, ver: u32) -> bool {
    match s {
        Shape::Seq(i, _) => model::min_size(i, ver) == 0 || has_collection_of_empty_elements(i, ver),
        Shape::Map(k, v, _) => model::min_size(k, ver) + model::min_size(v, ver) == 0 || has_collection_of_empty_elements(k, ver) || has_collection_of_empty_elements(v, ver),
        Shape::Opt(i) | Shape::Array(_, i) => has_collection_of_empty_elements(i, ver),
        Shape::Res(a, b) => has_collection_of_empty_elements(a, ver) || has_collection_of_empty_elements(b, ver),
        Shape::Tuple(v) => v.iter().any(|x| has_collection_of_empty_elements(x, ver)),
        Shape::Struct(_, f) => f.iter().any(|f| has_collection_of_empty_elements(&f.shape, ver)),
        Shape::Enum(_, _, vs) => vs.iter().any(|v| v.fields.iter().any(|f| has_collection_of_empty_elements(&f.shape, ver))),
        _ => false,
    }
}

fn contains_constrained_leaf(s: &Shape) -> bool {
    match s {
        Shape::Bool | Shape::Char | Shape::Enum(..) => true,
        Shape::Seq(i, _) | Shape::Opt(i) | Shape::Array(_, i) => contains_constrained_leaf(i),
        Shape::Map(k, v, _) | Shape::Res(k, v) => contains_constrained_leaf(k) || contains_constrained_leaf(v),
        Shape::Tuple(v) => v.iter().any(contains_constrained_leaf),
        Shape::Struct(_, f) => f.iter().any(|f| contains_constrained_leaf(&f.shape)),
        _ => false,
    }
}

/// Does the type contain a bulk-copyable run of elements with validity-constrained leaves (bool, char, enum
/// tags)? For those, recorded finding #19 (bulk reads do not validate) is undefined behaviour, which the
/// interpreter reports by aborting the whole shard: such subjects are left to the native builds.
fn bulk_validity_risk(s: &Shape, ver: u32) -> bool {
    match s {
        Shape::Seq(i, _) | Shape::Array(_, i) => (model::fixed_size(i, ver).is_some() && contains_constrained_leaf(i)) || bulk_validity_risk(i, ver),
        Shape::Opt(i) => bulk_validity_risk(i, ver),
        Shape::Map(k, v, _) | Shape::Res(k, v) => bulk_validity_risk(k, ver) || bulk_validity_risk(v, ver),
        Shape::Tuple(v) => v.iter().any(|x| bulk_validity_risk(x, ver)),
        Shape::Struct(_, f) => f.iter().any(|f| bulk_validity_risk(&f.shape, ver)),
        Shape::Enum(_, _, vs) => vs.iter().any(|v| v.fields.iter().any(|f| bulk_validity_risk(&f.shape, ver))),
        _ => false,
    }
}

pub fn run(ctx: &mut Ctx, reg: &Registry) {
    let subs = subjects(reg);
    let inproc = std::env::var("VH_INPROC").is_ok() || cfg!(miri);
    let child = std::env::var("VH_C06_CHILD").ok();
    if let Some(label) = child {
        // child: exactly one subject, journal every input
        let skip: usize = std::env::var("VH_C06_SKIP").ok().and_then(|x| x.parse().ok()).unwrap_or(0);
        let journal = std::env::var("VH_C06_JOURNAL").unwrap_or_default();
        let Some(s) = subs.iter().find(|s| s.label == label) else {
            ctx.inconclusive(format!("child: unknown subject {}", label));
            return;
        };
        let inputs = inputs_for(s, ctx.seed, ctx.quick());
        let mut jf = std::fs::OpenOptions::new().create(true).append(true).open(&journal).ok();
        let stop: usize = std::env::var("VH_C06_STOP").ok().and_then(|x| x.parse().ok()).unwrap_or(usize::MAX);
        let skip_hz = std::env::var("VH_C06_SKIP_HZ").is_ok();
        for (i, inp) in inputs.iter().enumerate().skip(skip) {
            if i >= stop {
                break;
            }
            if skip_hz && inp.huge_count_of_empty_elements {
                // one such input was already reported as non-terminating for this type: the others differ only in the count
                ctx.count("inputs_skipped_same_nontermination");
                continue;
            }
            if i % 97 == 5 {
                ctx.sample("input", J::obj(vec![("type", J::s(s.label.clone())), ("entry_point", J::s(inp.entry)), ("mutation", J::s(inp.desc.clone())), ("input_hex", J::s(hex_trunc(&inp.bytes, 64)))]));
            }
            if let Some(f) = jf.as_mut() {
                let _ = writeln!(f, "START {}", i);
                let _ = f.flush();
            }
            if let Err(p) = catch(std::panic::AssertUnwindSafe(|| judge(ctx, s, inp))) {
                ctx.violation("C06:panic-outside-deserializer", &s.label, J::obj(vec![("mutation", J::s(inp.desc.clone())), ("input_hex", J::s(hex_trunc(&inp.bytes, 160))), ("observed", J::s(p))]));
            }
            if let Some(f) = jf.as_mut() {
                let _ = writeln!(f, "DONE {}", i);
            }
        }
        ctx.count_n("inputs_total", inputs.len() as u64);
        return;
    }
    // thorough: the native debug build is several times slower per input and takes every second subject
    let stride = if !ctx.quick() && ctx.build == "debug" { 2 } else { ctx.t(2, 1) };
    for s in subs.iter() {
        if !ctx.mine(s.index) || !ctx.wants_type(&s.label) || !slow_keep(s) {
            continue;
        }
        if ctx.type_filter.is_none() && !slow_build() && (s.index / ctx.nshards) % stride != (ctx.seed as usize) % stride {
            continue;
        }
        if cfg!(miri) && bulk_validity_risk(&s.e.ops.shape(), s.e.version) {
            ctx.count("types_left_to_native_builds_known_ub_finding");
            continue;
        }
        ctx.count("types");
        if inproc {
            for inp in inputs_for(s, ctx.seed, ctx.quick()) {
                judge(ctx, s, &inp);
            }
            continue;
        }
        run_children(ctx, s);
    }
}

fn run_children(ctx: &mut Ctx, s: &Subject) {
    let exe = std::env::current_exe().expect("current_exe");
    let dir = std::env::var("VH_TMP").unwrap_or_else(|_| "/tmp".into());
    let tag = format!("{}_{}", std::process::id(), s.index);
    let journal = format!("{}/vh_c06_{}.journal", dir, tag);
    let report = format!("{}/vh_c06_{}.json", dir, tag);
    let mut skip = 0usize;
    let mut skip_hz = false;
    let mut nonterminations = 0;
    let mut restarts = 0;
    loop {
        let _ = std::fs::remove_file(&journal);
        let _ = std::fs::remove_file(&report);
        // 2 GiB of address space: a declared absurd length fails to allocate instead of zero-filling gigabytes
        let cmd = format!(
            "{}exec \"{}\" C06 --seed {} --tier {} --out \"{}\" --build {}",
            // AddressSanitizer reserves terabytes of shadow address space: no address-space limit there
            // (its own max_allocation_size_mb / allocator_may_return_null options bound allocations)
            if std::env::var("VH_SANITIZER").is_ok() { "" } else { "ulimit -v 2097152; " },
            exe.display(),
            ctx.seed,
            if ctx.quick() { "quick" } else { "thorough" },
            report,
            ctx.build
        );
        let errfile = format!("{}/vh_c06_{}.stderr", dir, tag);
        let spawned = std::fs::File::create(&errfile).and_then(|ef| {
            std::process::Command::new("sh")
                .arg("-c")
                .arg(&cmd)
                .env("VH_C06_CHILD", &s.label)
                .env("VH_C06_SKIP", skip.to_string())
                .envs(if skip_hz { vec![("VH_C06_SKIP_HZ", "1")] } else { vec![] })
                .env("VH_C06_JOURNAL", &journal)
                .stdout(std::process::Stdio::null())
                .stderr(ef)
                .spawn()
        });
        let Ok(mut childp) = spawned else {
            ctx.inconclusive("could not spawn child process");
            return;
        };
        // progress watchdog: the journal must advance. The verdict is taken on the child's own CPU time
        // (a logical measure that does not depend on machine load): a child that burns `limit` CPU seconds
        // on one input is killed and that input is reported as non-terminating. Wall-clock time only bounds
        // the run: exceeding it without having used the CPU budget is inconclusive, never a violation.
        let limit = std::time::Duration::from_secs(if ctx.quick() { 60 } else { 120 });
        let wall_limit = limit * 8;
        let pid = childp.id();
        let cpu_secs = |pid: u32| -> f64 {
            // utime + stime (fields 14, 15 of /proc/<pid>/stat, after the parenthesised command name)
            let Ok(t) = std::fs::read_to_string(format!("/proc/{}/stat", pid)) else { return 0.0 };
            let Some(i) = t.rfind(')') else { return 0.0 };
            let f: Vec<&str> = t[i + 1..].split_whitespace().collect();
            let ut: f64 = f.get(11).and_then(|x| x.parse().ok()).unwrap_or(0.0);
            let st: f64 = f.get(12).and_then(|x| x.parse().ok()).unwrap_or(0.0);
            (ut + st) / 100.0
        };
        let mut last_size = 0u64;
        let mut last_change = std::time::Instant::now();
        let mut cpu_at_change = 0.0f64;
        let mut hung = false;
        let mut stalled: Option<String> = None;
        let status = loop {
            match childp.try_wait() {
                Ok(Some(st)) => break st,
                Ok(None) => {}
                Err(_) => {
                    ctx.inconclusive("wait on child failed");
                    return;
                }
            }
            let sz = std::fs::metadata(&journal).map(|m| m.len()).unwrap_or(0);
            if sz != last_size {
                last_size = sz;
                last_change = std::time::Instant::now();
                cpu_at_change = cpu_secs(pid);
            } else {
                let used = cpu_secs(pid) - cpu_at_change;
                if used > limit.as_secs_f64() {
                    let _ = childp.kill();
                    hung = true;
                    break childp.wait().expect("wait after kill");
                }
                if last_change.elapsed() > wall_limit {
                    let _ = childp.kill();
                    stalled = Some(format!("child for {} made no progress for {} s of wall time but used only {:.1} s of CPU on that input (machine load?)", s.label, wall_limit.as_secs(), used));
                    break childp.wait().expect("wait after kill");
                }
            }
            std::thread::sleep(std::time::Duration::from_millis(20));
        };
        if let Some(msg) = stalled {
            ctx.inconclusive(msg);
            return;
        }
        struct Out {
            status: std::process::ExitStatus,
            stderr: Vec<u8>,
        }
        let out = Out { status, stderr: std::fs::read(&errfile).unwrap_or_default() };
        let _ = std::fs::remove_file(&errfile);
        // merge whatever the child reported
        let mut finished = false;
        if let Ok(text) = std::fs::read_to_string(&report) {
            if let Ok(j) = crate::util::parse_json(&text) {
                merge_child(ctx, &j);
                finished = true;
            }
        }
        if finished && out.status.success() {
            break;
        }
        // the child died: find the input it was working on
        let jtext = std::fs::read_to_string(&journal).unwrap_or_default();
        let mut last_start: Option<usize> = None;
        let mut done: Option<usize> = None;
        for line in jtext.lines() {
            if let Some(x) = line.strip_prefix("START ") {
                last_start = x.trim().parse().ok();
            }
            if let Some(x) = line.strip_prefix("DONE ") {
                done = x.trim().parse().ok();
            }
        }
        let stderr = String::from_utf8_lossy(&out.stderr).to_string();
        let Some(culprit) = last_start.filter(|x| Some(*x) != done) else {
            ctx.inconclusive(format!("child for {} exited abnormally without a journalled input: {} {}", s.label, out.status, &stderr[..stderr.len().min(300)]));
            break;
        };
        let inputs = inputs_for(s, ctx.seed, ctx.quick());
        // inputs before the culprit were judged by the dead child but its report is lost: re-run them is
        // not needed for the verdict on the culprit; the remaining inputs are run by the next child
        ctx.eval();
        let oom = stderr.contains("memory allocation of") || stderr.contains("capacity overflow") || stderr.contains("AddressSanitizer: requested allocation size") || stderr.contains("AddressSanitizer: allocation-size-too-big") || stderr.contains("AddressSanitizer: out of memory");
        if hung {
            if let Some(inp) = inputs.get(culprit) {
                ctx.violation(
                    if inp.huge_count_of_empty_elements {
                        skip_hz = true;
                        nonterminations += 1;
                        "C06:does-not-return[huge-count-of-empty-elements]"
                    } else if has_collection_of_empty_elements(&s.e.ops.shape(), s.e.version) {
                        // the reference decoder stopped earlier (e.g. at an invalid bool the real bulk reader accepts),
                        // but the type has a collection of empty elements whose count position garbage can reach
                        nonterminations += 1;
                        "C06:does-not-return[huge-count-of-empty-elements]"
                    } else {
                        nonterminations += 1;
                        "C06:does-not-return"
                    },
                    &s.label,
                    J::obj(vec![
                        ("type", J::s(s.label.clone())),
                        ("definition", J::s(s.e.def)),
                        ("entry_point", J::s(inp.entry)),
                        ("mutation", J::s(inp.desc.clone())),
                        ("input_hex", J::s(hex_trunc(&inp.bytes, 160))),
                        ("observed", J::s(format!("no return after {} s of CPU time on this input (child killed)", limit.as_secs()))),
                    ]),
                );
            }
        } else if oom {
            ctx.count("exempt_allocation_failure_abort");
        } else if let Some(inp) = inputs.get(culprit) {
            use std::os::unix::process::ExitStatusExt;
            let sig = out.status.signal();
            let died_sig = match stderr.find("ERROR: AddressSanitizer: ") {
                Some(i) => format!("C06:asan:{}", stderr[i + 25..].split_whitespace().next().unwrap_or("report")),
                None => "C06:process-died".to_string(),
            };
            ctx.violation(
                &died_sig,
                &s.label,
                J::obj(vec![
                    ("type", J::s(s.label.clone())),
                    ("definition", J::s(s.e.def)),
                    ("entry_point", J::s(inp.entry)),
                    ("mutation", J::s(inp.desc.clone())),
                    ("input_hex", J::s(hex_trunc(&inp.bytes, 160))),
                    ("signal", J::s(format!("{:?}", sig))),
                    ("exit_status", J::s(format!("{}", out.status))),
                    ("stderr_tail", J::s(stderr[stderr.len().saturating_sub(600)..].to_string())),
                ]),
            );
        }
        // results of inputs [skip, culprit) are lost with the dead child: run that range again in-process
        // is unsafe (it may be the same crash); instead restart after the culprit and re-run the lost
        // prefix in a fresh child bounded by the culprit.
        if culprit > skip {
            rerun_range(ctx, s, skip, culprit, skip_hz);
        }
        skip = culprit + 1;
        restarts += 1;
        ctx.count("child_restarts");
        if nonterminations >= 3 {
            // each further one costs the full CPU budget and adds nothing to the verdict on this type
            ctx.count_n("inputs_not_run_after_three_nonterminations", inputs.len().saturating_sub(skip) as u64);
            break;
        }
        if restarts > 200 {
            ctx.inconclusive(format!("too many child restarts for {}", s.label));
            break;
        }
        if skip >= inputs.len() {
            break;
        }
    }
    let _ = std::fs::remove_file(&journal);
    let _ = std::fs::remove_file(&report);
}

/// Re-run inputs [from, to) in a child that stops before `to` (their verdicts were lost with a dead child).
fn rerun_range(ctx: &mut Ctx, s: &Subject, from: usize, to: usize, skip_hz: bool) {
    let exe = std::env::current_exe().expect("current_exe");
    let dir = std::env::var("VH_TMP").unwrap_or_else(|_| "/tmp".into());
    let report = format!("{}/vh_c06_{}_{}_r.json", dir, std::process::id(), s.index);
    let _ = std::fs::remove_file(&report);
    let cmd = format!(
        "{}exec \"{}\" C06 --seed {} --tier {} --out \"{}\" --build {}",
        if std::env::var("VH_SANITIZER").is_ok() { "" } else { "ulimit -v 2097152; " },
        exe.display(),
        ctx.seed,
        if ctx.quick() { "quick" } else { "thorough" },
        report,
        ctx.build
    );
    let spawned = std::process::Command::new("sh")
        .arg("-c")
        .arg(&cmd)
        .env("VH_C06_CHILD", &s.label)
        .env("VH_C06_SKIP", from.to_string())
        .env("VH_C06_STOP", to.to_string())
        .env("VH_C06_JOURNAL", "/dev/null")
        .envs(if skip_hz { vec![("VH_C06_SKIP_HZ", "1")] } else { vec![] })
        .stdout(std::process::Stdio::null())
        .stderr(std::process::Stdio::null())
        .spawn();
    let Ok(mut child) = spawned else { return };
    // these inputs all returned in the child that died later; the re-run only recovers their counters and is
    // bounded by CPU time (their verdicts are not at stake)
    let budget = if ctx.quick() { 120.0 } else { 300.0 };
    let pid = child.id();
    loop {
        match child.try_wait() {
            Ok(Some(_)) | Err(_) => break,
            Ok(None) => {}
        }
        let used = std::fs::read_to_string(format!("/proc/{}/stat", pid))
            .ok()
            .and_then(|t| {
                let i = t.rfind(')')?;
                let f: Vec<&str> = t[i + 1..].split_whitespace().collect();
                Some((f.get(11)?.parse::<f64>().ok()? + f.get(12)?.parse::<f64>().ok()?) / 100.0)
            })
            .unwrap_or(0.0);
        if used > budget {
            let _ = child.kill();
            let _ = child.wait();
            ctx.count("prefix_rerun_abandoned");
            break;
        }
        std::thread::sleep(std::time::Duration::from_millis(50));
    }
    if let Ok(text) = std::fs::read_to_string(&report) {
        if let Ok(j) = crate::util::parse_json(&text) {
            merge_child(ctx, &j);
        }
    }
    let _ = std::fs::remove_file(&report);
}

pub fn merge_child(ctx: &mut Ctx, j: &J) {
    ctx.merge(j);
}
