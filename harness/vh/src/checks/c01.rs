//! C01 Round-trip fidelity: load(save(x)) == x in all containers, and loading
//! consumes exactly what saving produced.

use super::*;
use crate::ops::{Container, ALL_CONTAINERS};

pub fn run(ctx: &mut Ctx, reg: &Registry) {
    let subs = subjects(reg);
    let nvals = nvals(ctx, 10, 80);
    for s in subs.iter() {
        if !ctx.mine(s.index) || !ctx.wants_type(&s.label) || !slow_keep(s) {
            continue;
        }
        let mut rng = Rng::derive(ctx.seed, &format!("c01/{}", s.label));
        check_subject(ctx, s, &mut rng, nvals);
    }
    if ctx.mine(0) && !slow_build() {
        size_sweeps(ctx, reg);
    }
}

fn check_subject(ctx: &mut Ctx, s: &Subject, rng: &mut Rng, nvals: usize) {
    let e = s.e;
    let ver = e.version;
    let shape = e.ops.shape();
    let vals = gen_values(ctx, e, rng, nvals, ver);
    ctx.count("types");
    for (vi, v) in vals.iter().enumerate() {
        let enc = match model::encode(v, &shape, ver) {
            Ok(b) => b,
            Err(m) => {
                ctx.inconclusive(format!("reference encoder rejected a generated value of {}: {}", s.label, m));
                continue;
            }
        };
        let expected = match model::decode(&enc, &shape, ver) {
            Ok((x, n)) if n == enc.len() => x,
            other => {
                ctx.inconclusive(format!("reference decoder failed on its own encoding for {}: {:?}", s.label, other.map(|x| x.1)));
                continue;
            }
        };
        for c in ALL_CONTAINERS {
            if cfg!(miri) && !matches!(c, Container::Plain | Container::NoSchema) {
                continue; // ring and bzip2 are foreign code that Miri cannot interpret
            }
            // the on-disk encrypted container is slow (sha256 + bzip2 + file io): fewer values
            if c == Container::EncryptedFile && vi >= ctx.t(3, 20) {
                continue;
            }
            roundtrip(ctx, s, v, &expected, &enc, c);
        }
    }
}

pub fn roundtrip(ctx: &mut Ctx, s: &Subject, v: &Val, expected: &Val, ref_payload: &[u8], c: Container) {
    let e = s.e;
    let ver = e.version;
    ctx.eval();
    ctx.count(&format!("container:{}", c.name()));
    ctx.distinct(&format!("{}|{}|{}", s.label, c.name(), model::val_class(v)));
    let fail = |ctx: &mut Ctx, what: &str, detail: String, bytes: Option<&[u8]>| {
        let shape = e.ops.shape();
        // recognise recorded finding #8: the only deviation is the raw discriminant value
        // written for an enum with explicit discriminants inside a bulk-copied region
        let mut sig = format!("C01:{}", what);
        if has_explicit_discr(&shape) {
            if let (Outcome::Ok(bare), Ok(alt)) = (e.ops.bare_ser(v, ver), model::encode_raw_discr(v, &shape, ver)) {
                if bare == alt && bare != ref_payload {
                    sig = "C01:raw-discriminant-in-bulk-region".to_string();
                }
            }
        }
        let mut j = case_json(&s.label, e.def, ver, v, bytes);
        j.push("container", J::s(c.name()));
        j.push("observed", J::s(detail));
        j.push("expected_value", J::s(model::val_brief(expected, 300)));
        j.push("reference_payload_hex", J::s(hex_trunc(ref_payload, 96)));
        ctx.violation(&sig, &s.label, j);
    };
    let bytes = match e.ops.save(v, ver, c) {
        Outcome::Ok(b) => b,
        o => {
            fail(ctx, "save-failed", format!("save: {}", o.brief()), None);
            return;
        }
    };
    match e.ops.load(&bytes, ver, c) {
        Outcome::Ok((lv, consumed)) => {
            if &lv != expected {
                fail(ctx, "value-differs", format!("loaded {}", model::val_brief(&lv, 300)), Some(&bytes));
                return;
            }
            ctx.count("roundtrip_ok");
            match c {
                Container::Plain | Container::NoSchema | Container::CryptoMem => {
                    if consumed != bytes.len() {
                        fail(ctx, "consumed-differs", format!("load consumed {} of {} bytes", consumed, bytes.len()), Some(&bytes));
                    } else {
                        ctx.count("consumed_exact");
                    }
                }
                _ => {
                    if consumed == bytes.len() {
                        ctx.count("consumed_exact");
                    }
                }
            }
            if ctx.evaluations % 997 == 1 {
                ctx.sample("roundtrip", {
                    let mut j = case_json(&s.label, e.def, ver, v, Some(&bytes));
                    j.push("container", J::s(c.name()));
                    j
                });
            }
        }
        o => fail(ctx, "load-failed", format!("load: {}", o.brief()), Some(&bytes)),
    }
}

/// Sizes around savefile's 64-byte element chunking and the 100 000 byte crypto block.
fn size_sweeps(ctx: &mut Ctx, reg: &Registry) {
    let find = |name: &str| reg.types.iter().find(|e| e.name() == name);
    let mut lens: Vec<usize> = vec![];
    for base in [100_000usize, 200_000] {
        for d in 0..ctx.t(70usize, 400) {
            lens.push(base - ctx.t(60, 350) + d);
        }
    }
    let Some(e) = find("Vec<u8>") else {
        ctx.inconclusive("Vec<u8> not in registry");
        return;
    };
    let sub = Subject { e, label: "Vec<u8>".into(), index: 0 };
    let mut rng = Rng::derive(ctx.seed, "c01/sweep");
    for l in lens {
        // incompressible content so that the compressed/encrypted stream keeps its size
        let v = Val::Seq(rng.bytes(l).into_iter().map(|b| Val::U(b as u128)).collect());
        let enc = model::encode(&v, &e.ops.shape(), 0).unwrap();
        for c in [Container::CryptoMem, Container::Plain] {
            roundtrip(ctx, &sub, &v, &v, &enc, c);
        }
        ctx.count("crypto_block_sweep");
    }
    // element-count sweep around the 64-byte chunking for non-packed small elements
    for name in ["Vec<usize>", "Vec<Option<u32>>", "Vec<(u16, u32)>", "Vec<String>", "Vec<bool>", "Vec<u128>"] {
        let Some(e) = find(name) else { continue };
        let sub = Subject { e, label: name.into(), index: 0 };
        let shape = e.ops.shape();
        let Shape::Seq(inner, _) = &shape else { continue };
        for l in 0..ctx.t(40usize, 140) {
            let items: Vec<Val> = (0..l).map(|_| model::gen_val(inner, &mut rng, &GenCfg { budget: 3, version: 0 })).collect();
            let v = e.ops.normalize(&Val::Seq(items));
            let enc = model::encode(&v, &shape, 0).unwrap();
            roundtrip(ctx, &sub, &v, &v, &enc, Container::NoSchema);
            ctx.count("chunk_sweep");
        }
    }
}
