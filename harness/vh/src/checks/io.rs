//! Instrumented readers / writers for the fault-injection checks (C07, C08, C14).

use std::io::{Error, ErrorKind, Read, Write};

#[derive(Clone, Debug)]
pub struct WriteEvent {
    pub offered: usize,
    pub accepted: Option<usize>,
    pub flush: bool,
}

/// Writer that accepts data in limited chunks, can raise `Interrupted`, and fails hard
/// once `fail_at` bytes have been accepted.
pub struct FaultyWriter {
    pub accepted: Vec<u8>,
    pub fail_at: Option<usize>,
    pub kind: ErrorKind,
    pub max_chunk: usize,
    pub interrupt_every: usize,
    pub calls: usize,
    pub failed: bool,
    pub writes_after_failure: usize,
    pub flushes: usize,
}

impl FaultyWriter {
    pub fn new(fail_at: Option<usize>, kind: ErrorKind, max_chunk: usize, interrupt_every: usize) -> FaultyWriter {
        FaultyWriter { accepted: vec![], fail_at, kind, max_chunk: max_chunk.max(1), interrupt_every, calls: 0, failed: false, writes_after_failure: 0, flushes: 0 }
    }
}

impl Write for FaultyWriter {
    fn write(&mut self, buf: &[u8]) -> std::io::Result<usize> {
        self.calls += 1;
        if self.failed {
            self.writes_after_failure += 1;
            return Err(Error::new(self.kind, "injected fault (repeated)"));
        }
        if self.interrupt_every > 0 && self.calls % self.interrupt_every == 0 {
            return Err(Error::new(ErrorKind::Interrupted, "injected interrupt"));
        }
        if buf.is_empty() {
            return Ok(0);
        }
        let mut n = buf.len().min(self.max_chunk);
        if let Some(limit) = self.fail_at {
            let room = limit.saturating_sub(self.accepted.len());
            if room == 0 {
                self.failed = true;
                return Err(Error::new(self.kind, "injected fault"));
            }
            n = n.min(room);
        }
        self.accepted.extend_from_slice(&buf[..n]);
        Ok(n)
    }
    fn flush(&mut self) -> std::io::Result<()> {
        self.flushes += 1;
        if self.failed {
            return Err(Error::new(self.kind, "injected fault (flush)"));
        }
        Ok(())
    }
}

/// Reader that hands out data in chunks, can raise `Interrupted`, and fails hard at an offset.
pub struct ChunkyReader<'a> {
    pub data: &'a [u8],
    pub pos: usize,
    pub chunks: Vec<usize>,
    pub chunk_idx: usize,
    pub interrupt_every: usize,
    pub fail_at: Option<usize>,
    pub kind: ErrorKind,
    pub calls: usize,
    pub failed: bool,
}

impl<'a> ChunkyReader<'a> {
    pub fn new(data: &'a [u8], chunks: Vec<usize>, interrupt_every: usize, fail_at: Option<usize>, kind: ErrorKind) -> ChunkyReader<'a> {
        ChunkyReader { data, pos: 0, chunks, chunk_idx: 0, interrupt_every, fail_at, kind, calls: 0, failed: false }
    }
}

impl Read for ChunkyReader<'_> {
    fn read(&mut self, buf: &mut [u8]) -> std::io::Result<usize> {
        self.calls += 1;
        if self.failed {
            return Err(Error::new(self.kind, "injected read fault (repeated)"));
        }
        if self.interrupt_every > 0 && self.calls % self.interrupt_every == 0 {
            return Err(Error::new(ErrorKind::Interrupted, "injected interrupt"));
        }
        if buf.is_empty() {
            return Ok(0);
        }
        let chunk = if self.chunks.is_empty() {
            usize::MAX
        } else {
            let c = self.chunks[self.chunk_idx % self.chunks.len()];
            self.chunk_idx += 1;
            c.max(1)
        };
        let mut n = buf.len().min(chunk).min(self.data.len() - self.pos);
        if let Some(limit) = self.fail_at {
            let room = limit.saturating_sub(self.pos);
            if room == 0 {
                self.failed = true;
                return Err(Error::new(self.kind, "injected read fault"));
            }
            n = n.min(room);
        }
        buf[..n].copy_from_slice(&self.data[self.pos..self.pos + n]);
        self.pos += n;
        Ok(n)
    }
}
