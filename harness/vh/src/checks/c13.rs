//! C13 Schema values persist exactly (library format versions 1 and 2 write+read,
//! 0 read) and schema comparison is reflexive and complete for wire-relevant changes.

use super::*;
use savefile::{
    diff_schema, AbiMethod, AbiMethodArgument, AbiMethodInfo, AbiTraitDefinition, Deserialize, Field, ReceiverType, Schema, SchemaArray, SchemaEnum,
    SchemaPrimitive, SchemaStruct, Serialize, Serializer, Variant, VecOrStringLayout,
};

/// The harness' own mirror of a schema tree (savefile's layout annotations are private fields,
/// so trees are generated here and converted).
#[derive(Clone, Debug, PartialEq)]
pub enum ST {
    Struct { name: String, size: Option<usize>, align: Option<usize>, fields: Vec<SF> },
    Enum { name: String, variants: Vec<SV>, dsize: u8, explicit: bool, size: Option<usize>, align: Option<usize> },
    /// primitive tag as written in the schema section (1..=16 except 9)
    Prim(u8),
    Str(u8),
    Vector(Box<ST>, u8),
    Array(Box<ST>, usize),
    Opt(Box<ST>),
    Zero,
    Custom(String),
    Boxed(Box<ST>),
    Slice(Box<ST>),
    StrRef,
    Reference(Box<ST>),
    Trait(bool, TD),
    FnClosure(bool, TD),
    Recursion(usize),
    IoError,
    Future(TD, bool, bool, bool),
    UninitSlice,
    Timestamp,
}
#[derive(Clone, Debug, PartialEq)]
pub struct SF {
    pub name: String,
    pub value: ST,
    pub offset: Option<usize>,
}
#[derive(Clone, Debug, PartialEq)]
pub struct SV {
    pub name: String,
    pub discr: u8,
    pub fields: Vec<SF>,
}
#[derive(Clone, Debug, PartialEq)]
pub struct TD {
    pub name: String,
    pub sync: bool,
    pub send: bool,
    pub methods: Vec<TM>,
}
#[derive(Clone, Debug, PartialEq)]
pub struct TM {
    pub name: String,
    pub ret: ST,
    pub receiver: u8,
    pub asyncf: bool,
    pub args: Vec<ST>,
}

fn layout(x: u8) -> VecOrStringLayout {
    match x {
        1 => VecOrStringLayout::DataCapacityLength,
        2 => VecOrStringLayout::DataLengthCapacity,
        3 => VecOrStringLayout::CapacityDataLength,
        4 => VecOrStringLayout::LengthDataCapacity,
        5 => VecOrStringLayout::CapacityLengthData,
        6 => VecOrStringLayout::LengthCapacityData,
        7 => VecOrStringLayout::LengthData,
        8 => VecOrStringLayout::DataLength,
        _ => VecOrStringLayout::Unknown,
    }
}
const PRIM_TAGS: [u8; 15] = [1, 2, 3, 4, 5, 6, 7, 8, 10, 11, 12, 13, 14, 15, 16];
fn prim(tag: u8) -> SchemaPrimitive {
    match tag {
        1 => SchemaPrimitive::schema_i8,
        2 => SchemaPrimitive::schema_u8,
        3 => SchemaPrimitive::schema_i16,
        4 => SchemaPrimitive::schema_u16,
        5 => SchemaPrimitive::schema_i32,
        6 => SchemaPrimitive::schema_u32,
        7 => SchemaPrimitive::schema_i64,
        8 => SchemaPrimitive::schema_u64,
        10 => SchemaPrimitive::schema_f32,
        11 => SchemaPrimitive::schema_f64,
        12 => SchemaPrimitive::schema_bool,
        13 => SchemaPrimitive::schema_canary1,
        14 => SchemaPrimitive::schema_i128,
        15 => SchemaPrimitive::schema_u128,
        _ => SchemaPrimitive::schema_char,
    }
}
fn prim_tag(p: &SchemaPrimitive) -> Option<u8> {
    Some(match p {
        SchemaPrimitive::schema_i8 => 1,
        SchemaPrimitive::schema_u8 => 2,
        SchemaPrimitive::schema_i16 => 3,
        SchemaPrimitive::schema_u16 => 4,
        SchemaPrimitive::schema_i32 => 5,
        SchemaPrimitive::schema_u32 => 6,
        SchemaPrimitive::schema_i64 => 7,
        SchemaPrimitive::schema_u64 => 8,
        SchemaPrimitive::schema_f32 => 10,
        SchemaPrimitive::schema_f64 => 11,
        SchemaPrimitive::schema_bool => 12,
        SchemaPrimitive::schema_canary1 => 13,
        SchemaPrimitive::schema_i128 => 14,
        SchemaPrimitive::schema_u128 => 15,
        SchemaPrimitive::schema_char => 16,
        SchemaPrimitive::schema_string(_) => return None,
    })
}

fn fields_to(fs: &[SF], lay: bool) -> Vec<Field> {
    fs.iter().map(|f| unsafe { Field::unsafe_new(f.name.clone(), Box::new(to_schema(&f.value, lay)), if lay { f.offset } else { None }) }).collect()
}
fn td_to(t: &TD, lay: bool, v2: bool) -> AbiTraitDefinition {
    AbiTraitDefinition {
        name: t.name.clone(),
        sync: t.sync,
        send: t.send,
        methods: t
            .methods
            .iter()
            .map(|m| AbiMethod {
                name: m.name.clone(),
                info: AbiMethodInfo {
                    return_value: to_schema_v(&m.ret, lay, v2),
                    receiver: if !v2 {
                        ReceiverType::Shared
                    } else {
                        match m.receiver {
                            1 => ReceiverType::Mut,
                            2 => ReceiverType::PinMut,
                            _ => ReceiverType::Shared,
                        }
                    },
                    arguments: m.args.iter().map(|a| AbiMethodArgument { schema: to_schema_v(a, lay, v2) }).collect(),
                    async_trait_heuristic: v2 && m.asyncf,
                },
            })
            .collect(),
    }
}
pub fn to_schema(s: &ST, lay: bool) -> Schema {
    to_schema_v(s, lay, true)
}
/// `lay` = keep memory-layout annotations; `v2` = keep the method attributes that only format 2 stores
pub fn to_schema_v(s: &ST, lay: bool, v2: bool) -> Schema {
    let b = |x: &ST| Box::new(to_schema_v(x, lay, v2));
    match s {
        ST::Struct { name, size, align, fields } => Schema::Struct(SchemaStruct::new_unsafe(
            name.clone(),
            fields.iter().map(|f| unsafe { Field::unsafe_new(f.name.clone(), b(&f.value), if lay { f.offset } else { None }) }).collect(),
            if lay { *size } else { None },
            if lay { *align } else { None },
        )),
        ST::Enum { name, variants, dsize, explicit, size, align } => Schema::Enum(SchemaEnum::new_unsafe(
            name.clone(),
            variants
                .iter()
                .map(|v| Variant {
                    name: v.name.clone(),
                    discriminant: v.discr,
                    fields: v.fields.iter().map(|f| unsafe { Field::unsafe_new(f.name.clone(), b(&f.value), if lay { f.offset } else { None }) }).collect(),
                })
                .collect(),
            if lay { *dsize } else { 1 },
            lay && *explicit,
            if lay { *size } else { None },
            if lay { *align } else { None },
        )),
        ST::Prim(t) => Schema::Primitive(prim(*t)),
        ST::Str(l) => Schema::Primitive(SchemaPrimitive::schema_string(if lay { layout(*l) } else { VecOrStringLayout::Unknown })),
        ST::Vector(i, l) => Schema::Vector(b(i), if lay { layout(*l) } else { VecOrStringLayout::Unknown }),
        ST::Array(i, n) => Schema::Array(SchemaArray { item_type: b(i), count: *n }),
        ST::Opt(i) => Schema::SchemaOption(b(i)),
        ST::Zero => Schema::ZeroSize,
        ST::Custom(c) => Schema::Custom(c.clone()),
        ST::Boxed(i) => Schema::Boxed(b(i)),
        ST::Slice(i) => Schema::Slice(b(i)),
        ST::StrRef => Schema::Str,
        ST::Reference(i) => Schema::Reference(b(i)),
        ST::Trait(m, t) => Schema::Trait(*m, td_to(t, lay, v2)),
        ST::FnClosure(m, t) => Schema::FnClosure(*m, td_to(t, lay, v2)),
        ST::Recursion(d) => Schema::Recursion(*d),
        ST::IoError => Schema::StdIoError,
        ST::Future(t, a, bb, c) => Schema::Future(td_to(t, lay, v2), *a, *bb, *c),
        ST::UninitSlice => Schema::UninitSlice,
        ST::Timestamp => Schema::UtcTimestamp,
    }
}
#[allow(dead_code)]
fn unused(fs: &[SF]) -> Vec<Field> {
    fields_to(fs, false)
}

/// Convert a real schema (of a type under test) into the mirror form; layout annotations are dropped.
pub fn from_schema(s: &Schema) -> Option<ST> {
    let f = |fs: &Vec<Field>| -> Option<Vec<SF>> { fs.iter().map(|x| Some(SF { name: x.name.clone(), value: from_schema(&x.value)?, offset: None })).collect() };
    Some(match s {
        Schema::Struct(st) => ST::Struct { name: st.dbg_name.clone(), size: None, align: None, fields: f(&st.fields)? },
        Schema::Enum(en) => ST::Enum {
            name: en.dbg_name.clone(),
            variants: en.variants.iter().map(|v| Some(SV { name: v.name.clone(), discr: v.discriminant, fields: f(&v.fields)? })).collect::<Option<Vec<_>>>()?,
            dsize: en.discriminant_size,
            explicit: false,
            size: None,
            align: None,
        },
        Schema::Primitive(p) => match prim_tag(p) {
            Some(t) => ST::Prim(t),
            None => ST::Str(0),
        },
        Schema::Vector(i, _) => ST::Vector(Box::new(from_schema(i)?), 0),
        Schema::Array(a) => ST::Array(Box::new(from_schema(&a.item_type)?), a.count),
        Schema::SchemaOption(i) => ST::Opt(Box::new(from_schema(i)?)),
        Schema::ZeroSize => ST::Zero,
        Schema::Custom(c) => ST::Custom(c.clone()),
        Schema::Boxed(i) => ST::Boxed(Box::new(from_schema(i)?)),
        Schema::Recursion(d) => ST::Recursion(*d),
        Schema::StdIoError => ST::IoError,
        Schema::UtcTimestamp => ST::Timestamp,
        _ => return None,
    })
}

// ---- format 0 encoder (written from the format description, independent of savefile) ------------
fn w_str(o: &mut Vec<u8>, s: &str) {
    o.extend_from_slice(&(s.len() as u64).to_le_bytes());
    o.extend_from_slice(s.as_bytes());
}
fn w_fields0(o: &mut Vec<u8>, fs: &[SF]) {
    for f in fs {
        w_str(o, &f.name);
        enc0(&f.value, o);
    }
}
fn w_td0(o: &mut Vec<u8>, t: &TD) {
    let mut n = t.name.clone();
    if t.sync {
        n += "+Sync";
    }
    if t.send {
        n += "+Send";
    }
    w_str(o, &n);
    o.extend_from_slice(&(t.methods.len() as u64).to_le_bytes());
    for m in &t.methods {
        w_str(o, &m.name);
        enc0(&m.ret, o);
        o.extend_from_slice(&(m.args.len() as u64).to_le_bytes());
        for a in &m.args {
            enc0(a, o);
        }
    }
}
pub fn enc0(s: &ST, o: &mut Vec<u8>) {
    match s {
        ST::Struct { name, fields, .. } => {
            o.push(1);
            w_str(o, name);
            o.extend_from_slice(&(fields.len() as u64).to_le_bytes());
            w_fields0(o, fields);
        }
        ST::Enum { name, variants, .. } => {
            o.push(2);
            w_str(o, name);
            o.extend_from_slice(&(variants.len() as u64).to_le_bytes());
            for v in variants {
                w_str(o, &v.name);
                o.push(v.discr);
                o.extend_from_slice(&(v.fields.len() as u64).to_le_bytes());
                w_fields0(o, &v.fields);
            }
        }
        ST::Prim(t) => {
            o.push(3);
            o.push(*t);
        }
        ST::Str(_) => {
            o.push(3);
            o.push(9);
        }
        ST::Vector(i, _) => {
            o.push(4);
            enc0(i, o);
        }
        ST::Zero => o.push(6),
        ST::Opt(i) => {
            o.push(7);
            enc0(i, o);
        }
        ST::Array(i, n) => {
            o.push(8);
            o.extend_from_slice(&(*n as u64).to_le_bytes());
            enc0(i, o);
        }
        ST::Custom(c) => {
            o.push(9);
            w_str(o, c);
        }
        ST::Boxed(i) => {
            o.push(10);
            enc0(i, o);
        }
        ST::FnClosure(m, t) => {
            o.push(11);
            o.push(*m as u8);
            w_td0(o, t);
        }
        ST::Slice(i) => {
            o.push(12);
            enc0(i, o);
        }
        ST::StrRef => o.push(13),
        ST::Reference(i) => {
            o.push(14);
            enc0(i, o);
        }
        ST::Trait(m, t) => {
            o.push(15);
            o.push(*m as u8);
            w_td0(o, t);
        }
        ST::Recursion(d) => {
            o.push(16);
            o.extend_from_slice(&(*d as u64).to_le_bytes());
        }
        ST::IoError => o.push(17),
        ST::Future(t, a, b, c) => {
            o.push(18);
            o.push((*a as u8) | ((*b as u8) << 1) | ((*c as u8) << 2));
            w_td0(o, t);
        }
        ST::UninitSlice => o.push(19),
        ST::Timestamp => o.push(20),
    }
}

fn contains_future(s: &ST) -> bool {
    match s {
        ST::Future(..) => true,
        ST::Struct { fields, .. } => fields.iter().any(|f| contains_future(&f.value)),
        ST::Enum { variants, .. } => variants.iter().any(|v| v.fields.iter().any(|f| contains_future(&f.value))),
        ST::Vector(i, _) | ST::Array(i, _) | ST::Opt(i) | ST::Boxed(i) | ST::Slice(i) | ST::Reference(i) => contains_future(i),
        ST::Trait(_, t) | ST::FnClosure(_, t) => t.methods.iter().any(|m| contains_future(&m.ret) || m.args.iter().any(contains_future)),
        _ => false,
    }
}

fn nodes(s: &ST) -> usize {
    1 + match s {
        ST::Struct { fields, .. } => fields.iter().map(|f| nodes(&f.value)).sum(),
        ST::Enum { variants, .. } => variants.iter().map(|v| 1 + v.fields.iter().map(|f| nodes(&f.value)).sum::<usize>()).sum(),
        ST::Vector(i, _) | ST::Array(i, _) | ST::Opt(i) | ST::Boxed(i) | ST::Slice(i) | ST::Reference(i) => nodes(i),
        ST::Trait(_, t) | ST::FnClosure(_, t) | ST::Future(t, ..) => t.methods.iter().map(|m| 1 + nodes(&m.ret) + m.args.iter().map(nodes).sum::<usize>()).sum(),
        _ => 0,
    }
}

// ---- enumeration -------------------------------------------------------------------------------

fn leaves() -> Vec<ST> {
    vec![ST::Prim(2), ST::Prim(3), ST::Prim(12), ST::Str(0), ST::Str(3), ST::Zero, ST::Custom("c".into()), ST::Recursion(1), ST::IoError, ST::Timestamp, ST::StrRef, ST::UninitSlice]
}

/// all sequences of subtrees with total node count `budget`, at most `maxk` items
fn sequences(budget: usize, maxk: usize, memo: &mut Vec<Option<Vec<ST>>>) -> Vec<Vec<ST>> {
    let mut out = vec![];
    if budget == 0 {
        out.push(vec![]);
        return out;
    }
    if maxk == 0 {
        return out;
    }
    for first in 1..=budget {
        let firsts = trees(first, memo);
        let rests = sequences(budget - first, maxk - 1, memo);
        for f in firsts.iter() {
            for r in rests.iter() {
                let mut v = vec![f.clone()];
                v.extend(r.iter().cloned());
                out.push(v);
            }
        }
    }
    out
}

/// all trees with exactly `size` nodes over a small alphabet (two choices per scalar attribute)
fn trees(size: usize, memo: &mut Vec<Option<Vec<ST>>>) -> Vec<ST> {
    if size == 0 {
        return vec![];
    }
    if let Some(Some(v)) = memo.get(size) {
        return v.clone();
    }
    let mut out = vec![];
    if size == 1 {
        out = leaves();
        out.push(ST::Struct { name: "S".into(), size: None, align: None, fields: vec![] });
        out.push(ST::Enum { name: "E".into(), variants: vec![], dsize: 1, explicit: false, size: None, align: None });
    } else {
        for c in trees(size - 1, memo) {
            out.push(ST::Vector(Box::new(c.clone()), 0));
            out.push(ST::Vector(Box::new(c.clone()), 2));
            out.push(ST::Array(Box::new(c.clone()), 2));
            out.push(ST::Opt(Box::new(c.clone())));
            out.push(ST::Boxed(Box::new(c.clone())));
            out.push(ST::Slice(Box::new(c.clone())));
            out.push(ST::Reference(Box::new(c)));
        }
        for fs in sequences(size - 1, 3, memo) {
            if fs.is_empty() {
                continue;
            }
            let fields: Vec<SF> = fs.iter().enumerate().map(|(i, v)| SF { name: if i % 2 == 0 { "a".into() } else { "".into() }, value: v.clone(), offset: if i == 0 { Some(0) } else { None } }).collect();
            out.push(ST::Struct { name: "S".into(), size: None, align: None, fields: fields.clone() });
            out.push(ST::Struct { name: "".into(), size: Some(8), align: Some(4), fields });
        }
        // enums: one or two variants; variant nodes count as one node each
        for nvar in 1..=2usize {
            if size < 1 + nvar {
                continue;
            }
            let rest = size - 1 - nvar;
            for split in 0..=rest {
                let a = sequences(split, 2, memo);
                let b = if nvar == 2 { sequences(rest - split, 2, memo) } else if split == rest { vec![vec![]] } else { vec![] };
                for fa in a.iter() {
                    for fb in b.iter() {
                        let mk = |fs: &Vec<ST>| -> Vec<SF> { fs.iter().map(|v| SF { name: "f".into(), value: v.clone(), offset: None }).collect() };
                        let mut variants = vec![SV { name: "A".into(), discr: 0, fields: mk(fa) }];
                        if nvar == 2 {
                            variants.push(SV { name: "B".into(), discr: 1, fields: mk(fb) });
                        }
                        out.push(ST::Enum { name: "E".into(), variants: variants.clone(), dsize: 1, explicit: false, size: None, align: None });
                        out.push(ST::Enum { name: "E".into(), variants, dsize: 2, explicit: true, size: Some(4), align: Some(2) });
                    }
                }
            }
        }
    }
    while memo.len() <= size {
        memo.push(None);
    }
    memo[size] = Some(out.clone());
    out
}

fn random_td(rng: &mut Rng, depth: u32) -> TD {
    TD {
        name: rng.pick(&["T", "MyTrait", "x"]).to_string(),
        sync: rng.chance(1, 2),
        send: rng.chance(1, 2),
        methods: (0..rng.below(3))
            .map(|i| TM {
                name: format!("m{}", i),
                // futures are only meaningful in return position (anywhere else comparing them is a documented panic)
                ret: if rng.chance(1, 4) { ST::Future(random_td(rng, depth + 2), rng.chance(1, 2), rng.chance(1, 2), rng.chance(1, 2)) } else { random_tree(rng, depth + 1) },
                receiver: rng.below(3) as u8,
                asyncf: rng.chance(1, 3),
                args: (0..rng.below(3)).map(|_| random_tree(rng, depth + 1)).collect(),
            })
            .collect(),
    }
}

pub fn random_tree(rng: &mut Rng, depth: u32) -> ST {
    let leaf = depth > 4 || rng.chance(1, 3);
    if leaf {
        return match rng.below(14) {
            0 => ST::Str(rng.below(9) as u8),
            1 => ST::Zero,
            2 => ST::Custom(rng.pick(&["", "c", "custom type"]).to_string()),
            3 => ST::Recursion(rng.below(4)),
            4 => ST::IoError,
            5 => ST::Timestamp,
            6 => ST::StrRef,
            7 => ST::UninitSlice,
            _ => {
                let t = 1 + rng.below(16) as u8;
                if t == 9 {
                    ST::Str(0)
                } else {
                    ST::Prim(t)
                }
            }
        };
    }
    let opt = |rng: &mut Rng| if rng.chance(1, 2) { Some(rng.below(64)) } else { None };
    let fields = |rng: &mut Rng, depth: u32| -> Vec<SF> { (0..rng.below(4)).map(|_| SF { name: rng.pick(&["", "a", "field_b"]).to_string(), value: random_tree(rng, depth + 1), offset: opt(rng) }).collect() };
    match rng.below(12) {
        0 | 1 => ST::Struct { name: rng.pick(&["", "S", "Name"]).to_string(), size: opt(rng), align: opt(rng), fields: fields(rng, depth) },
        2 | 3 => ST::Enum {
            name: rng.pick(&["", "E"]).to_string(),
            variants: (0..rng.below(4)).map(|i| SV { name: format!("V{}", i), discr: if rng.chance(1, 5) { rng.below(256) as u8 } else { i as u8 }, fields: fields(rng, depth) }).collect(),
            dsize: *rng.pick(&[1u8, 2, 4]),
            explicit: rng.chance(1, 2),
            size: opt(rng),
            align: opt(rng),
        },
        4 => ST::Vector(Box::new(random_tree(rng, depth + 1)), rng.below(9) as u8),
        5 => ST::Array(Box::new(random_tree(rng, depth + 1)), rng.below(5)),
        6 => ST::Opt(Box::new(random_tree(rng, depth + 1))),
        7 => ST::Boxed(Box::new(random_tree(rng, depth + 1))),
        8 => ST::Slice(Box::new(random_tree(rng, depth + 1))),
        9 => ST::Reference(Box::new(random_tree(rng, depth + 1))),
        10 => {
            if rng.chance(1, 2) {
                ST::Trait(rng.chance(1, 2), random_td(rng, depth))
            } else {
                ST::FnClosure(rng.chance(1, 2), random_td(rng, depth))
            }
        }
        _ => {
            if depth == 0 {
                ST::Future(random_td(rng, depth), rng.chance(1, 2), rng.chance(1, 2), rng.chance(1, 2))
            } else {
                ST::Boxed(Box::new(random_tree(rng, depth + 1)))
            }
        }
    }
}

// ---- mutations ---------------------------------------------------------------------------------

/// wire tokens of a data schema (used to avoid swapping fields that are wire-identical)
/// What the comparison looks at: the tree without memory-layout annotations and without the names of structs,
/// enums and fields (variant names and discriminants are compared). Two subtrees with equal `wire_sig` are
/// interchangeable on the wire, so swapping them is not a wire-relevant change.
fn wire_sig(s: &ST) -> String {
    fn fields(fs: &[SF]) -> String {
        fs.iter().map(|f| wire_sig(&f.value)).collect::<Vec<_>>().join(",")
    }
    match s {
        ST::Struct { fields: f, .. } => format!("S{{{}}}", fields(f)),
        ST::Enum { variants, dsize, .. } => format!("E{}{{{}}}", dsize, variants.iter().map(|v| format!("{}={}({})", v.name, v.discr, fields(&v.fields))).collect::<Vec<_>>().join("|")),
        ST::Vector(i, _) => format!("V[{}]", wire_sig(i)),
        ST::Array(i, n) => format!("A{}[{}]", n, wire_sig(i)),
        ST::Opt(i) => format!("O[{}]", wire_sig(i)),
        ST::Boxed(i) => format!("B[{}]", wire_sig(i)),
        ST::Slice(i) => format!("L[{}]", wire_sig(i)),
        ST::Reference(i) => format!("R[{}]", wire_sig(i)),
        ST::Str(_) => "str".into(),
        // trait definitions are leaves for the mutation generator: their comparison is directional (bounds,
        // method sets) and not part of the wire-layout changes the property lists
        ST::Trait(..) | ST::FnClosure(..) | ST::Future(..) => "trait-object".into(),
        other => format!("{:?}", to_schema(other, false)),
    }
}

/// All single wire-relevant mutations of the tree (applied at every data node; trait definitions are leaves).
pub fn mutations(s: &ST) -> Vec<(String, ST)> {
    let mut out: Vec<(String, ST)> = vec![];
    // mutations at the root
    match s {
        ST::Prim(t) => {
            // every other primitive kind (all ordered pairs of kinds are reached through the enumerated trees)
            for nt in PRIM_TAGS {
                if nt != *t {
                    out.push((format!("primitive kind {:?} -> {:?}", prim(*t), prim(nt)), ST::Prim(nt)));
                }
            }
            out.push(("primitive -> string".into(), ST::Str(0)));
        }
        ST::Str(_) => out.push(("string -> u8".into(), ST::Prim(2))),
        ST::Struct { name, size, align, fields } => {
            let mut f2 = fields.clone();
            f2.push(SF { name: "added".into(), value: ST::Prim(2), offset: None });
            out.push(("field added".into(), ST::Struct { name: name.clone(), size: *size, align: *align, fields: f2 }));
            if !fields.is_empty() {
                let mut f3 = fields.clone();
                f3.remove(fields.len() / 2);
                out.push(("field removed".into(), ST::Struct { name: name.clone(), size: *size, align: *align, fields: f3 }));
            }
            for i in 0..fields.len().saturating_sub(1) {
                if wire_sig(&fields[i].value) != wire_sig(&fields[i + 1].value) {
                    let mut f4 = fields.clone();
                    f4.swap(i, i + 1);
                    out.push((format!("fields {} and {} reordered", i, i + 1), ST::Struct { name: name.clone(), size: *size, align: *align, fields: f4 }));
                    break;
                }
            }
        }
        ST::Enum { name, variants, dsize, explicit, size, align } => {
            let mk = |v: Vec<SV>, d: u8| ST::Enum { name: name.clone(), variants: v, dsize: d, explicit: *explicit, size: *size, align: *align };
            let mut v2 = variants.clone();
            v2.push(SV { name: "Added".into(), discr: 200, fields: vec![] });
            out.push(("variant added".into(), mk(v2, *dsize)));
            if !variants.is_empty() {
                let mut v3 = variants.clone();
                v3.remove(0);
                out.push(("variant removed".into(), mk(v3, *dsize)));
                let mut v4 = variants.clone();
                v4[0].name.push_str("_renamed");
                out.push(("variant renamed".into(), mk(v4, *dsize)));
                let mut v5 = variants.clone();
                v5[0].discr = v5[0].discr.wrapping_add(1);
                out.push(("variant discriminant changed".into(), mk(v5, *dsize)));
                let mut v6 = variants.clone();
                v6[0].fields.push(SF { name: "added".into(), value: ST::Prim(2), offset: None });
                out.push(("variant field added".into(), mk(v6, *dsize)));
            }
            out.push(("discriminant width changed".into(), mk(variants.clone(), if *dsize == 1 { 2 } else { 1 })));
        }
        ST::Array(i, n) => {
            out.push(("array length + 1".into(), ST::Array(i.clone(), n + 1)));
            if *n > 0 {
                out.push(("array length - 1".into(), ST::Array(i.clone(), n - 1)));
            }
        }
        ST::Opt(i) => out.push(("option unwrapped".into(), (**i).clone())),
        ST::Vector(i, _) => out.push(("vector unwrapped".into(), (**i).clone())),
        _ => {}
    }
    if !matches!(s, ST::Opt(_)) {
        out.push(("wrapped in option".into(), ST::Opt(Box::new(s.clone()))));
    }
    if !matches!(s, ST::Vector(..)) {
        out.push(("wrapped in vector".into(), ST::Vector(Box::new(s.clone()), 0)));
    }
    // mutations below the root
    match s {
        ST::Struct { name, size, align, fields } => {
            for (i, f) in fields.iter().enumerate() {
                for (d, m) in mutations(&f.value) {
                    let mut f2 = fields.clone();
                    f2[i].value = m;
                    out.push((format!("field {}: {}", i, d), ST::Struct { name: name.clone(), size: *size, align: *align, fields: f2 }));
                }
            }
        }
        ST::Enum { name, variants, dsize, explicit, size, align } => {
            for (vi, v) in variants.iter().enumerate() {
                for (i, f) in v.fields.iter().enumerate() {
                    for (d, m) in mutations(&f.value) {
                        let mut v2 = variants.clone();
                        v2[vi].fields[i].value = m;
                        out.push((format!("variant {} field {}: {}", vi, i, d), ST::Enum { name: name.clone(), variants: v2, dsize: *dsize, explicit: *explicit, size: *size, align: *align }));
                    }
                }
            }
        }
        ST::Vector(i, l) => out.extend(mutations(i).into_iter().map(|(d, m)| (format!("element: {}", d), ST::Vector(Box::new(m), *l)))),
        ST::Array(i, n) => out.extend(mutations(i).into_iter().map(|(d, m)| (format!("element: {}", d), ST::Array(Box::new(m), *n)))),
        ST::Opt(i) => out.extend(mutations(i).into_iter().map(|(d, m)| (format!("inner: {}", d), ST::Opt(Box::new(m))))),
        ST::Boxed(i) => out.extend(mutations(i).into_iter().map(|(d, m)| (format!("inner: {}", d), ST::Boxed(Box::new(m))))),
        ST::Slice(i) => out.extend(mutations(i).into_iter().map(|(d, m)| (format!("inner: {}", d), ST::Slice(Box::new(m))))),
        ST::Reference(i) => out.extend(mutations(i).into_iter().map(|(d, m)| (format!("inner: {}", d), ST::Reference(Box::new(m))))),
        _ => {}
    }
    out
}

fn write_schema(s: &Schema, format: u32) -> Result<Vec<u8>, String> {
    let mut buf: Vec<u8> = vec![];
    let r = catch(|| {
        let mut ser = Serializer::<Vec<u8>>::new_raw(&mut buf, format);
        s.serialize(&mut ser)
    });
    match r {
        Ok(Ok(())) => Ok(buf),
        Ok(Err(e)) => Err(format!("{:?}", e)),
        Err(p) => Err(format!("panic: {}", p)),
    }
}
fn read_schema(bytes: &[u8], format: u16) -> Result<(Schema, usize), String> {
    let mut rd = crate::ops::CountingReader { data: bytes, pos: 0 };
    let r = catch(|| {
        let mut d = savefile::new_schema_deserializer(&mut rd, format);
        Schema::deserialize(&mut d)
    });
    let pos = rd.pos;
    match r {
        Ok(Ok(s)) => Ok((s, pos)),
        Ok(Err(e)) => Err(format!("{:?}", e)),
        Err(p) => Err(format!("panic: {}", p)),
    }
}

fn brief(s: &ST) -> String {
    let mut x = format!("{:?}", s);
    if x.len() > 500 {
        x.truncate(500);
        x.push_str("…");
    }
    x
}

fn check_tree(ctx: &mut Ctx, st: &ST, origin: &str, do_mutations: bool) {
    let full = to_schema(st, true);
    let subject = origin.to_string();
    let mk = |what: String| J::obj(vec![("schema_tree", J::s(brief(st))), ("nodes", J::i(nodes(st))), ("observed", J::s(what))]);
    // formats 2 and 1: exact round trip. Format 1 has no place for a method's receiver kind and async flag:
    // a tree that differs from the original in exactly those attributes gets its own (recorded) signature.
    for format in [2u32, 1] {
        ctx.eval();
        let expect = full.clone();
        match write_schema(&full, format) {
            Err(m) => ctx.violation("C13:schema-write-fails", &subject, mk(format!("format {}: {}", format, m))),
            Ok(bytes) => match read_schema(&bytes, format as u16) {
                Ok((back, used)) => {
                    if format == 1 && back != expect && used == bytes.len() && back == to_schema_v(st, true, false) {
                        ctx.violation(
                            "C13:format1-drops-receiver-and-async-flag",
                            "format-1",
                            mk("written and read back at library format 1, every method of a trait definition comes back with receiver &self and without the async flag; everything else is preserved".to_string()),
                        );
                    } else if back != expect || used != bytes.len() {
                        let mut b = format!("{:?}", back);
                        b.truncate(500);
                        ctx.violation("C13:schema-roundtrip-differs", &subject, mk(format!("format {}: read back {} (consumed {}/{})", format, b, used, bytes.len())));
                    } else {
                        ctx.count(if format == 2 { "roundtrip_format2_ok" } else { "roundtrip_format1_ok" });
                    }
                }
                Err(m) => {
                    let sig = if m.contains("Unexpected trait name") { "C13:trait-name-with-plus-not-representable" } else { "C13:schema-read-fails" };
                    ctx.violation(sig, &subject, mk(format!("format {}: {}", format, m)));
                }
            },
        }
    }
    // format 0: bytes from the independent encoder
    ctx.eval();
    let mut b0 = vec![];
    enc0(st, &mut b0);
    let expect0 = to_schema_v(st, false, false);
    match read_schema(&b0, 0) {
        Ok((back, used)) => {
            if back != expect0 || used != b0.len() {
                let mut b = format!("{:?}", back);
                b.truncate(500);
                ctx.violation("C13:format0-decodes-differently", &subject, mk(format!("format 0 bytes {} decoded to {} (consumed {}/{})", hex_trunc(&b0, 80), b, used, b0.len())));
            } else {
                ctx.count("format0_read_ok");
            }
        }
        Err(m) => ctx.violation("C13:format0-read-fails", &subject, mk(format!("format 0 bytes {}: {}", hex_trunc(&b0, 80), m))),
    }
    // reflexivity
    ctx.eval();
    let is_ret = contains_future(st);
    match catch(|| diff_schema(&full, &full, "".into(), is_ret)) {
        Ok(None) => ctx.count("diff_reflexive"),
        Ok(Some(d)) => ctx.violation("C13:diff-not-reflexive", &subject, mk(format!("diff_schema(s, s) = {}", d))),
        Err(p) => ctx.violation("C13:diff-panics", &subject, mk(format!("diff_schema(s, s) panicked: {}", p))),
    }
    ctx.distinct(&format!("{}|{:?}", origin, to_schema(st, false)));
    if ctx.evaluations % 2003 < 6 {
        ctx.sample("schema-tree", J::obj(vec![("origin", J::s(origin)), ("tree", J::s(brief(st)))]));
    }
    // completeness
    if do_mutations && !is_ret {
        for (desc, m) in mutations(st) {
            let ms = to_schema(&m, true);
            ctx.eval();
            ctx.count("mutations");
            for (a, b, dir) in [(&full, &ms, "original vs mutated"), (&ms, &full, "mutated vs original")] {
                match catch(|| diff_schema(a, b, "".into(), false)) {
                    Ok(Some(_)) => ctx.count("mutation_detected"),
                    Ok(None) => ctx.violation(
                        "C13:wire-relevant-change-not-reported",
                        &subject,
                        J::obj(vec![("schema_tree", J::s(brief(st))), ("mutation", J::s(desc.clone())), ("direction", J::s(dir)), ("mutated_tree", J::s(brief(&m)))]),
                    ),
                    Err(p) => ctx.violation("C13:diff-panics", &subject, J::obj(vec![("schema_tree", J::s(brief(st))), ("mutation", J::s(desc.clone())), ("observed", J::s(p))])),
                }
            }
        }
    }
}

pub fn run(ctx: &mut Ctx, reg: &Registry) {
    // (a) exhaustive enumeration up to a node bound
    let bound = ctx.t(3, 4);
    let mut memo: Vec<Option<Vec<ST>>> = vec![];
    let mut idx = 0usize;
    for size in 1..=bound {
        let ts = trees(size, &mut memo);
        ctx.count_n(&format!("enumerated_trees_size_{}", size), ts.len() as u64);
        for t in ts.iter() {
            idx += 1;
            if !ctx.mine(idx) {
                continue;
            }
            check_tree(ctx, t, "enumerated", true);
            ctx.count("enumerated_trees_checked");
        }
    }
    // (a2) every ordered pair of distinct primitive kinds, bare and nested (vector element, option, struct field)
    if ctx.mine(0) {
        for a in PRIM_TAGS {
            for b in PRIM_TAGS {
                if a == b {
                    continue;
                }
                let wraps: Vec<(&str, Box<dyn Fn(ST) -> ST>)> = vec![
                    ("bare", Box::new(|x| x)),
                    ("vector element", Box::new(|x| ST::Vector(Box::new(x), 0))),
                    ("option", Box::new(|x| ST::Opt(Box::new(x)))),
                    ("struct field", Box::new(|x| ST::Struct { name: "s".into(), size: None, align: None, fields: vec![SF { name: "f".into(), value: x, offset: None }] })),
                ];
                for (wname, w) in wraps.iter() {
                    ctx.eval();
                    ctx.count("mutations");
                    let (sa, sb) = (to_schema(&w(ST::Prim(a)), true), to_schema(&w(ST::Prim(b)), true));
                    match catch(|| diff_schema(&sa, &sb, "".into(), false)) {
                        Ok(Some(_)) => ctx.count("mutation_detected"),
                        Ok(None) => ctx.violation(
                            "C13:wire-relevant-change-not-reported",
                            "primitive-pairs",
                            J::obj(vec![("mutation", J::s(format!("primitive kind {:?} -> {:?} ({})", prim(a), prim(b), wname))), ("observed", J::s("diff_schema reports no difference"))]),
                        ),
                        Err(p) => ctx.violation("C13:diff-panics", "primitive-pairs", J::obj(vec![("mutation", J::s(format!("{:?} -> {:?} ({})", prim(a), prim(b), wname))), ("observed", J::s(p))])),
                    }
                    ctx.distinct(&format!("primpair|{}|{}|{}", a, b, wname));
                }
            }
        }
        ctx.count("primitive_pairs_exhaustive");
    }
    // (b) random trees up to ~60 nodes, including trait / closure / future nodes
    let mut rng = Rng::derive(ctx.seed, &format!("c13/{}", ctx.shard));
    let n = ctx.t(6000, 20000) / ctx.nshards.max(1);
    let mut made = 0;
    while made < n {
        let t = random_tree(&mut rng, 0);
        if nodes(&t) > 60 {
            continue;
        }
        made += 1;
        check_tree(ctx, &t, "random", made % 3 == 0);
        ctx.count("random_trees_checked");
    }
    // (c) real schemas of the types under test
    for s in subjects(reg).iter() {
        if !ctx.mine(s.index) || !ctx.wants_type(&s.label) {
            continue;
        }
        for ver in 0..=s.e.version {
            let Ok(real) = catch(|| s.e.ops.schema(ver)) else { continue };
            // the real schema itself must survive formats 1 and 2
            for format in [2u32, 1] {
                ctx.eval();
                match write_schema(&real, format).and_then(|b| read_schema(&b, format as u16).map(|x| (x, b.len()))) {
                    Ok(((back, used), len)) if back == real && used == len => ctx.count("real_schema_roundtrip_ok"),
                    other => ctx.violation(
                        "C13:real-schema-roundtrip-differs",
                        &s.label,
                        J::obj(vec![("version", J::i(ver)), ("format", J::i(format)), ("observed", J::s(format!("{:?}", other.map(|x| x.1).map_err(|e| e))))]),
                    ),
                }
            }
            if let Some(st) = from_schema(&real) {
                check_tree(ctx, &st, &format!("real:{}", s.label), ver == s.e.version && nodes(&st) < 80);
                ctx.count("real_schemas_checked");
            }
        }
    }
}
