//! C03 Backward-compatible loading across schema evolution: data saved by
//! definition i at version i loads with definition j >= i; the expected value
//! is what the reference decoder produces when it reads the version-i bytes
//! with definition j's own declared shape (kept fields, skipped removed fields,
//! declared defaults, conversions).

use super::*;
use crate::ops::Container;

pub fn run(ctx: &mut Ctx, reg: &Registry) {
    let nvals = nvals(ctx, 30, 60);
    for (fi, fam) in reg.families.iter().enumerate() {
        if !ctx.mine(fi) || !ctx.wants_type(fam.name) {
            continue;
        }
        ctx.count("families");
        let n = fam.versions.len();
        for i in 0..n {
            let ei = &fam.versions[i];
            let shape_i = ei.ops.shape();
            let mut rng = Rng::derive(ctx.seed, &format!("c03/{}/{}", fam.name, i));
            let vals = gen_values(ctx, ei, &mut rng, nvals, i as u32);
            for j in i..n {
                let ej = &fam.versions[j];
                let shape_j = ej.ops.shape();
                ctx.count("version_pairs");
                for v in vals.iter() {
                    let payload = match model::encode(v, &shape_i, i as u32) {
                        Ok(b) => b,
                        Err(m) => {
                            ctx.inconclusive(format!("reference encoder rejected value of {}@v{}: {}", fam.name, i, m));
                            continue;
                        }
                    };
                    let expected = match model::decode(&payload, &shape_j, i as u32) {
                        Ok((x, used)) if used == payload.len() => x,
                        other => {
                            ctx.inconclusive(format!(
                                "generator inconsistency: definition {}@v{} does not describe version-{} bytes of the same family: {:?} [{}]",
                                fam.name, j, i, other.map(|x| x.1), fam.edits
                            ));
                            continue;
                        }
                    };
                    for c in [Container::Plain, Container::NoSchema, Container::Compressed] {
                        ctx.eval();
                        ctx.distinct(&format!("{}|{}->{}|{}|{}", fam.name, i, j, c.name(), model::val_class(v)));
                        let label = format!("{}@v{}->v{}", fam.name, i, j);
                        let bytes = match ei.ops.save(v, i as u32, c) {
                            Outcome::Ok(b) => b,
                            o => {
                                ctx.violation("C03:save-failed", &label, case_json(&label, ei.def, i as u32, v, None).with("observed", J::s(o.brief())));
                                continue;
                            }
                        };
                        let mk = |observed: String| {
                            let mut jv = case_json(&label, ej.def, j as u32, v, Some(&bytes));
                            jv.push("saved_by_definition", J::s(ei.def));
                            jv.push("edits", J::s(fam.edits));
                            jv.push("container", J::s(c.name()));
                            jv.push("expected_value", J::s(model::val_brief(&expected, 400)));
                            jv.push("observed", J::s(observed));
                            jv
                        };
                        match ej.ops.load(&bytes, j as u32, c) {
                            Outcome::Ok((lv, _)) => {
                                if lv != expected {
                                    ctx.violation("C03:value-differs", &label, mk(format!("loaded {}", model::val_brief(&lv, 400))));
                                } else {
                                    ctx.count("upgrade_ok");
                                    if i != j {
                                        ctx.count("cross_version_ok");
                                    }
                                    if ctx.evaluations % 499 == 3 && i != j {
                                        ctx.sample("upgrade", mk("loaded == expected".into()));
                                    }
                                }
                            }
                            o => ctx.violation("C03:load-failed", &label, mk(o.brief())),
                        }
                    }
                }
            }
        }
    }
}
