//! C17 Introspection is self-consistent and navigation never panics.

use super::*;
use savefile::{Introspect, IntrospectedElementKey, Introspector, IntrospectorNavCommand};

const PROBE_CAP: usize = 10_050;

/// number of consecutively indexable children, and whether a child exists within 8 indices after the first gap
fn count_children(x: &dyn Introspect) -> (usize, bool) {
    let mut n = 0;
    while n < PROBE_CAP && x.introspect_child(n).is_some() {
        n += 1;
    }
    let mut gap = false;
    for k in 1..=8 {
        if x.introspect_child(n + k).is_some() {
            gap = true;
        }
    }
    (n, gap)
}

fn walk(ctx: &mut Ctx, label: &str, x: &dyn Introspect, depth: u32, path: &str) {
    ctx.eval();
    ctx.count("nodes_checked");
    let value = x.introspect_value();
    let len = x.introspect_len();
    let (n, gap) = count_children(x);
    let kind: String = value.chars().take_while(|c| c.is_alphanumeric()).collect();
    ctx.distinct(&format!("{}|{}|{}|{}", label, depth, kind, if n == 0 { "leaf" } else if n < 4 { "few" } else { "many" }));
    if gap {
        ctx.violation(
            "C17:children-not-consecutive",
            label,
            J::obj(vec![("path", J::s(path)), ("node", J::s(value.clone())), ("first_missing_index", J::i(n))]),
        );
    }
    // the probe stops at PROBE_CAP children: beyond that only `len >= PROBE_CAP` can be demanded
    if len != n && !(n == PROBE_CAP && len >= PROBE_CAP) {
        let is_map = value.contains("HashMap<") || value.contains("BTreeMap<") || value.contains("IndexMap<");
        let sig = if is_map && n == 2 * len { "C17:map-len-counts-entries-but-children-are-keys-and-values" } else { "C17:len-differs-from-indexable-children" };
        ctx.violation(
            sig,
            label,
            J::obj(vec![("path", J::s(path)), ("node", J::s(value.clone())), ("introspect_len", J::i(len)), ("indexable_children", J::i(n))]),
        );
    } else {
        ctx.count("len_matches_children");
    }
    if depth >= 4 {
        return;
    }
    for i in 0..n.min(12) {
        if let Some(c) = x.introspect_child(i) {
            let key = c.key().to_string();
            walk(ctx, label, c.val(), depth + 1, &format!("{}/{}", path, key));
        }
    }
}

fn random_command(rng: &mut Rng, keys: &[String], depth_hint: usize) -> IntrospectorNavCommand {
    let depth = *rng.pick(&[0usize, 0, 1, 1, 2, 3, depth_hint, depth_hint + 1, 7, usize::MAX]);
    match rng.below(10) {
        0 | 1 => IntrospectorNavCommand::Nothing,
        2 | 3 => IntrospectorNavCommand::Up,
        4 | 5 | 6 => IntrospectorNavCommand::SelectNth { select_depth: depth, select_index: *rng.pick(&[0usize, 0, 1, 2, 3, 5, 100, usize::MAX]) },
        _ => {
            let key = if !keys.is_empty() && rng.chance(3, 4) { rng.pick(keys).clone() } else { rng.pick(&["", "nope", "0", "f0"]).to_string() };
            IntrospectorNavCommand::ExpandElement(IntrospectedElementKey { depth, key, key_disambiguator: *rng.pick(&[0usize, 0, 0, 1, 2, usize::MAX]) })
        }
    }
}

fn navigate(ctx: &mut Ctx, label: &str, x: &dyn Introspect, rng: &mut Rng, sequences: usize) {
    // keys that occur in the first three levels (so that ExpandElement sometimes succeeds)
    let mut keys: Vec<String> = vec![];
    fn collect(x: &dyn Introspect, depth: u32, keys: &mut Vec<String>) {
        if depth > 2 {
            return;
        }
        for i in 0..6 {
            if let Some(c) = x.introspect_child(i) {
                keys.push(c.key().to_string());
                collect(c.val(), depth + 1, keys);
            }
        }
    }
    collect(x, 0, &mut keys);
    for _ in 0..sequences {
        let limit = *rng.pick(&[usize::MAX, usize::MAX, 0, 1, 2, 5]);
        let mut insp = if limit == usize::MAX { Introspector::new() } else { Introspector::new_with(limit) };
        let steps = rng.range(1, 30);
        let mut script: Vec<String> = vec![];
        for _ in 0..steps {
            let cmd = random_command(rng, &keys, insp.num_frames());
            script.push(format!("{:?}", cmd));
            ctx.eval();
            ctx.count("commands");
            let r = catch(std::panic::AssertUnwindSafe(|| insp.do_introspect(x, cmd.clone())));
            let mk = |observed: String| J::obj(vec![("child_limit", J::s(format!("{}", limit))), ("commands", J::Arr(script.iter().map(|c| J::s(c.clone())).collect())), ("observed", J::s(observed))]);
            match r {
                Err(p) => {
                    ctx.violation("C17:navigation-panics", label, mk(format!("panic: {}", p)));
                    break;
                }
                Ok(Err(err)) => {
                    ctx.count("command_rejected");
                    ctx.distinct(&format!("{}|err|{:?}", label, err));
                }
                Ok(Ok(res)) => {
                    ctx.count("command_ok");
                    if script.len() >= 4 && ctx.evaluations % 5003 < 40 {
                        ctx.sample("navigation", J::obj(vec![("type", J::s(label)), ("child_limit", J::s(format!("{}", limit))), ("commands", J::Arr(script.iter().map(|c| J::s(c.clone())).collect())), ("frames", J::i(res.frames.len())), ("total_len", J::i(res.total_len()))]));
                    }
                    ctx.distinct(&format!("{}|ok|frames{}|limit{}", label, res.frames.len().min(5), limit.min(9)));
                    let total = res.total_len();
                    let mut bad: Option<String> = None;
                    let checked = catch(std::panic::AssertUnwindSafe(|| {
                        for i in 0..total.min(400) {
                            if res.total_index(i).is_none() {
                                return Some(format!("total_index({}) is None although total_len() is {}", i, total));
                            }
                        }
                        for i in total..total + 8 {
                            if res.total_index(i).is_some() {
                                return Some(format!("total_index({}) is Some although total_len() is {}", i, total));
                            }
                        }
                        None
                    }));
                    match checked {
                        Err(p) => bad = Some(format!("total_index panicked: {}", p)),
                        Ok(Some(m)) => bad = Some(m),
                        Ok(None) => ctx.count("flat_index_consistent"),
                    }
                    if let Some(m) = bad {
                        let sig = if m.contains("panicked") { "C17:total-index-panics" } else { "C17:flat-index-inconsistent-with-total-len" };
                        ctx.violation(sig, label, mk(m));
                        break;
                    }
                    // the Display impl walks the same structure
                    if let Err(p) = catch(std::panic::AssertUnwindSafe(|| format!("{}", res))) {
                        ctx.violation("C17:display-panics", label, mk(format!("panic in Display: {}", p)));
                        break;
                    }
                }
            }
        }
    }
}

pub fn run(ctx: &mut Ctx, reg: &Registry) {
    let subs = subjects(reg);
    let nvals = nvals(ctx, 6, 12);
    let seqs = if slow_build() { 1 } else { ctx.t(15, 40) };
    for s in subs.iter() {
        if !ctx.mine(s.index) || !ctx.wants_type(&s.label) || !slow_keep(s) {
            continue;
        }
        let Some(intro) = s.e.intro.as_ref() else {
            ctx.count("types_without_introspect");
            continue;
        };
        ctx.count("types");
        let mut rng = Rng::derive(ctx.seed, &format!("c17/{}", s.label));
        let vals = gen_values(ctx, s.e, &mut rng, nvals, s.e.version);
        for v in vals.iter() {
            let label = s.label.clone();
            let mut rng2 = Rng::derive(ctx.seed, &format!("c17n/{}/{}", s.label, model::val_class(v)));
            let r = catch(std::panic::AssertUnwindSafe(|| {
                intro.with_intro(v, &mut |x: &dyn Introspect| {
                    walk(ctx, &label, x, 0, "");
                    navigate(ctx, &label, x, &mut rng2, seqs);
                });
            }));
            if let Err(p) = r {
                ctx.violation("C17:introspection-panics", &s.label, J::obj(vec![("value", J::s(model::val_brief(v, 300))), ("observed", J::s(p))]));
            }
        }
    }
}
