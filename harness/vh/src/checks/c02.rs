//! C02 Wire-format conformance: bytes equal the documented encoding (reference
//! encoder), and bytes assembled purely by the reference encoder load back.

use super::*;
use crate::ops::Container;

pub fn header(lib_version: u16, data_version: u32, compressed: bool) -> Vec<u8> {
    let mut h = b"savefile\0".to_vec();
    h.extend_from_slice(&lib_version.to_le_bytes());
    h.extend_from_slice(&data_version.to_le_bytes());
    h.push(compressed as u8);
    h
}

pub fn run(ctx: &mut Ctx, reg: &Registry) {
    let subs = subjects(reg);
    let nvals = ctx.t(40, 100);
    for s in subs.iter() {
        if !ctx.mine(s.index) || !ctx.wants_type(&s.label) {
            continue;
        }
        let mut rng = Rng::derive(ctx.seed, &format!("c02/{}", s.label));
        let e = s.e;
        let ver = e.version;
        let shape = e.ops.shape();
        let det = model::deterministic(&shape);
        ctx.count("types");
        ctx.count(if det { "types_deterministic" } else { "types_with_unordered_containers" });
        for v in gen_values(ctx, e, &mut rng, nvals, ver) {
            let reference = match model::encode(&v, &shape, ver) {
                Ok(b) => b,
                Err(m) => {
                    ctx.inconclusive(format!("reference encoder rejected a generated value of {}: {}", s.label, m));
                    continue;
                }
            };
            let expected = model::decode(&reference, &shape, ver).map(|x| x.0).unwrap_or(Val::Unit);
            ctx.distinct(&format!("{}|{}", s.label, model::val_class(&v)));
            let viol = |ctx: &mut Ctx, what: &str, observed: String, bytes: &[u8]| {
                let mut sig = format!("C02:{}", what);
                if has_explicit_discr(&shape) {
                    if let Ok(alt) = model::encode_raw_discr(&v, &shape, ver) {
                        if alt != reference && bytes.ends_with(&alt) {
                            sig = "C02:raw-discriminant-in-bulk-region".to_string();
                        }
                    }
                }
                let mut j = case_json(&s.label, e.def, ver, &v, Some(bytes));
                j.push("observed", J::s(observed));
                j.push("reference_payload_hex", J::s(hex_trunc(&reference, 96)));
                ctx.violation(&sig, &s.label, j);
            };
            // (1) bare serialisation == reference payload
            ctx.eval();
            match e.ops.bare_ser(&v, ver) {
                Outcome::Ok(b) => {
                    if det {
                        if b != reference {
                            viol(ctx, "payload-differs", "bare_serialize bytes differ from the reference encoding".into(), &b);
                        } else {
                            ctx.count("payload_bytes_equal");
                        }
                    } else {
                        match model::decode(&b, &shape, ver) {
                            Ok((dv, n)) if n == b.len() && dv == expected && b.len() == reference.len() => ctx.count("payload_equal_modulo_order"),
                            other => viol(ctx, "payload-differs", format!("reference decoder on real bytes: {:?}", other.map(|x| model::val_brief(&x.0, 200))), &b),
                        }
                    }
                }
                o => viol(ctx, "serialize-failed", o.brief(), &[]),
            }
            // (2) schema-less container = 16 byte header + payload
            ctx.eval();
            match e.ops.save(&v, ver, Container::NoSchema) {
                Outcome::Ok(b) => {
                    let h = header(2, ver, false);
                    if b.len() < 16 || b[..16] != h[..] {
                        viol(ctx, "header-differs", format!("header {} expected {}", crate::util::hex(&b[..b.len().min(16)]), crate::util::hex(&h)), &b);
                    } else if det && b[16..] != reference[..] {
                        viol(ctx, "payload-differs", "save_noschema payload differs from the reference encoding".into(), &b);
                    } else {
                        ctx.count("noschema_file_equal");
                    }
                }
                o => viol(ctx, "serialize-failed", o.brief(), &[]),
            }
            // (3) container with schema: header, then schema section, then payload as suffix
            ctx.eval();
            match e.ops.save(&v, ver, Container::Plain) {
                Outcome::Ok(b) => {
                    let h = header(2, ver, false);
                    if b.len() < 16 || b[..16] != h[..] {
                        viol(ctx, "header-differs", format!("header {}", crate::util::hex(&b[..b.len().min(16)])), &b);
                    } else if det && !b.ends_with(&reference) {
                        viol(ctx, "payload-differs", "save payload (suffix) differs from the reference encoding".into(), &b);
                    } else {
                        ctx.count("plain_file_suffix_equal");
                    }
                }
                o => viol(ctx, "serialize-failed", o.brief(), &[]),
            }
            // (4) a file assembled by the reference encoder alone must load to the value
            ctx.eval();
            let mut file = header(2, ver, false);
            file.extend_from_slice(&reference);
            match e.ops.load(&file, ver, Container::NoSchema) {
                Outcome::Ok((lv, consumed)) => {
                    if lv != expected || consumed != file.len() {
                        viol(ctx, "reference-file-misread", format!("loaded {} consumed {}/{}", model::val_brief(&lv, 200), consumed, file.len()), &file);
                    } else {
                        ctx.count("reference_file_loaded");
                    }
                }
                o => viol(ctx, "reference-file-rejected", o.brief(), &file),
            }
            // (5) equal values produce identical bytes (deterministic types): save twice from independently built values
            if det {
                ctx.eval();
                let a = e.ops.save(&v, ver, Container::Plain);
                let b = e.ops.save(&e.ops.normalize(&v), ver, Container::Plain);
                if a != b {
                    viol(ctx, "nondeterministic", "two saves of equal values differ".into(), &[]);
                } else {
                    ctx.count("deterministic_resave");
                }
            }
            if ctx.evaluations % 1999 < 5 {
                ctx.sample("conformance", case_json(&s.label, e.def, ver, &v, Some(&reference)));
            }
        }
    }
}
