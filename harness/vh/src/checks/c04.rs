//! C04 Packed fast path is transparent and only taken for padding-free layouts.

use super::*;

pub fn run(ctx: &mut Ctx, reg: &Registry) {
    let subs = subjects(reg);
    let nvals = nvals(ctx, 6, 40);
    for s in subs.iter() {
        if !ctx.mine(s.index) || !ctx.wants_type(&s.label) || !slow_keep(s) {
            continue;
        }
        let mut rng = Rng::derive(ctx.seed, &format!("c04/{}", s.label));
        check_subject(ctx, s, &mut rng, nvals);
    }
    // bulk reading of *older* data: elements written by definition i, read in bulk by definition j
    for (fi, fam) in reg.families.iter().enumerate() {
        if !ctx.mine(fi) || !ctx.wants_type(fam.name) {
            continue;
        }
        let n = fam.versions.len();
        for i in 0..n {
            let ei = &fam.versions[i];
            let shape_i = ei.ops.shape();
            let mut rng = Rng::derive(ctx.seed, &format!("c04/fam/{}/{}", fam.name, i));
            let vals = gen_values(ctx, ei, &mut rng, ctx.t(4, 12), i as u32);
            let mut payloads = vec![];
            for v in vals.iter() {
                if let Ok(b) = model::encode(v, &shape_i, i as u32) {
                    payloads.push(b);
                }
            }
            for j in i..n {
                let ej = &fam.versions[j];
                let shape_j = ej.ops.shape();
                let label = format!("{}@v{}->v{}", fam.name, i, j);
                let mut singles = vec![];
                let mut ok = true;
                for p in payloads.iter() {
                    match (ej.ops.bare_de(p, i as u32), model::decode(p, &shape_j, i as u32)) {
                        (Outcome::Ok((x, _)), Ok((r, _))) if x == r => singles.push(x),
                        _ => {
                            ok = false; // C03's business
                            break;
                        }
                    }
                }
                if !ok {
                    ctx.count("family_bulk_skipped_single_read_differs");
                    continue;
                }
                for (wname, w) in ej.ops.bulk_wrappers() {
                    let cnt = match (w.fixed_len(), w.max_len()) {
                        (Some(k), _) => k,
                        (_, Some(m)) => payloads.len().min(m),
                        _ => payloads.len(),
                    };
                    if payloads.len() < cnt || cnt == 0 {
                        continue;
                    }
                    let mut bulk = vec![];
                    if w.has_len_prefix() {
                        bulk.extend_from_slice(&(cnt as u64).to_le_bytes());
                    }
                    for p in &payloads[..cnt] {
                        bulk.extend_from_slice(p);
                    }
                    ctx.eval();
                    ctx.distinct(&format!("{}|{}|oldread|packed{}", label, wname, ej.ops.packed(i as u32)));
                    match w.bare_de(&bulk, i as u32) {
                        Outcome::Ok((items, used)) => {
                            if items[..] != singles[..cnt] || used != bulk.len() {
                                ctx.violation(
                                    "C04:bulk-read-of-older-version-differs",
                                    &label,
                                    J::obj(vec![
                                        ("container", J::s(wname.clone())),
                                        ("definition", J::s(ej.def)),
                                        ("file_version", J::i(i)),
                                        ("packed_at_file_version", J::Bool(ej.ops.packed(i as u32))),
                                        ("bytes_hex", J::s(hex_trunc(&bulk, 96))),
                                        ("bulk", J::s(model::val_brief(&Val::Seq(items), 300))),
                                        ("elementwise", J::s(model::val_brief(&Val::Seq(singles[..cnt].to_vec()), 300))),
                                        ("edits", J::s(fam.edits)),
                                    ]),
                                );
                            } else {
                                ctx.count("bulk_old_version_read_ok");
                            }
                        }
                        o => ctx.violation(
                            "C04:bulk-read-of-older-version-fails",
                            &label,
                            J::obj(vec![("container", J::s(wname.clone())), ("definition", J::s(ej.def)), ("file_version", J::i(i)), ("observed", J::s(o.brief())), ("bytes_hex", J::s(hex_trunc(&bulk, 96)))]),
                        ),
                    }
                }
            }
        }
    }
}

fn check_subject(ctx: &mut Ctx, s: &Subject, rng: &mut Rng, nvals: usize) {
    let e = s.e;
    let ver = e.version;
    let shape = e.ops.shape();
    ctx.count("types");
    let vals = gen_values(ctx, e, rng, nvals, ver);
    if vals.is_empty() {
        return;
    }
    let explicit = has_explicit_discr(&shape);
    for v in 0..=ver {
        let packed = e.ops.packed(v);
        ctx.count(if packed { "decisions_packed_yes" } else { "decisions_packed_no" });
        ctx.distinct(&format!("{}|v{}|decision={}", s.label, v, packed));
        // ---- "only if": a yes answer must be backed by the actual memory layout -------------
        if packed {
            ctx.eval();
            let fs = model::fixed_size(&shape, v);
            if fs != Some(e.ops.size_of()) {
                ctx.violation(
                    &layout_sig(&shape, v).unwrap_or_else(|| "C04:packed-but-size-differs".to_string()),
                    &s.label,
                    J::obj(vec![
                        ("definition", J::s(e.def)),
                        ("version", J::i(v)),
                        ("size_of", J::i(e.ops.size_of())),
                        ("wire_size", J::s(format!("{:?}", fs))),
                    ]),
                );
                // the memory image may contain padding: do not read it; containers of this type
                // would copy that padding, which is the same finding, so skip them as well
                continue;
            }
            for val in vals.iter() {
                let Ok(reference) = model::encode(val, &shape, v) else { continue };
                ctx.eval();
                let image = e.ops.mem_image(val);
                if image != reference {
                    let mut sig = "C04:packed-but-image-differs".to_string();
                    if explicit {
                        if let Ok(alt) = model::encode_raw_discr(val, &shape, v) {
                            if alt == image {
                                sig = "C04:packed-enum-with-explicit-discriminants".to_string();
                            }
                        }
                    }
                    let mut j = case_json(&s.label, e.def, v, val, Some(&image));
                    j.push("reference_payload_hex", J::s(hex_trunc(&reference, 96)));
                    j.push("observed", J::s("type is declared bulk-copyable but its memory image is not its field-by-field encoding"));
                    ctx.violation(&sig, &s.label, j);
                } else {
                    ctx.count("image_equals_encoding");
                }
            }
        }
        // ---- transparency: containers versus element-wise ------------------------------------
        let mut singles: Vec<Vec<u8>> = vec![];
        let mut usable: Vec<Val> = vec![];
        for val in vals.iter() {
            // only versions the definition can write (Removed fields cannot be written)
            if model::encode(val, &shape, v).is_err() {
                continue;
            }
            match e.ops.bare_ser(val, v) {
                Outcome::Ok(b) => {
                    singles.push(b);
                    usable.push(val.clone());
                }
                _ => {} // C01/C18 report this
            }
        }
        if usable.is_empty() {
            ctx.count("versions_not_writable");
            continue;
        }
        for (wname, w) in e.ops.bulk_wrappers() {
            let cnt = match (w.fixed_len(), w.max_len()) {
                (Some(k), _) => k,
                (_, Some(m)) => usable.len().min(m),
                _ => usable.len(),
            };
            let mut elems: Vec<Val> = vec![];
            let mut idx: Vec<usize> = vec![];
            for k in 0..cnt {
                elems.push(usable[k % usable.len()].clone());
                idx.push(k % usable.len());
            }
            let mut expected = vec![];
            if w.has_len_prefix() {
                expected.extend_from_slice(&(cnt as u64).to_le_bytes());
            }
            for k in idx.iter() {
                expected.extend_from_slice(&singles[*k]);
            }
            ctx.eval();
            ctx.distinct(&format!("{}|v{}|{}|packed{}", s.label, v, wname, packed));
            let mk = |observed: String, bytes: &[u8]| {
                let mut j = case_json(&s.label, e.def, v, &Val::Seq(elems.clone()), Some(bytes));
                j.push("container", J::s(wname.clone()));
                j.push("packed_decision", J::Bool(packed));
                j.push("elementwise_bytes_hex", J::s(hex_trunc(&expected, 96)));
                j.push("observed", J::s(observed));
                j
            };
            let raw_sig = |default: &str| -> String {
                if explicit && packed {
                    // alternate prediction of recorded finding #8
                    let mut alt = vec![];
                    if w.has_len_prefix() {
                        alt.extend_from_slice(&(cnt as u64).to_le_bytes());
                    }
                    for el in elems.iter() {
                        if let Ok(b) = model::encode_raw_discr(el, &shape, v) {
                            alt.extend_from_slice(&b);
                        }
                    }
                    if let Outcome::Ok(b) = w.bare_ser(&elems, v) {
                        if b == alt {
                            return "C04:packed-enum-with-explicit-discriminants".to_string();
                        }
                    }
                }
                default.to_string()
            };
            let deterministic = model::deterministic(&shape);
            match w.bare_ser(&elems, v) {
                Outcome::Ok(b) => {
                    if deterministic && b != expected {
                        ctx.violation(&raw_sig("C04:bulk-bytes-differ-from-elementwise"), &s.label, mk("container bytes differ from the concatenation of element bytes".into(), &b));
                    } else {
                        ctx.count("bulk_write_equals_elementwise");
                    }
                    // Under Miri / sanitizers the recorded finding "explicit discriminants in bulk-copied
                    // enums" is genuine undefined behaviour inside savefile (an invalid enum tag is
                    // materialised); it is reported by the native builds, and skipped here so that the
                    // interpreter keeps going and can report anything *else*.
                    if (cfg!(miri) || std::env::var("VH_SANITIZER").is_ok()) && explicit && packed {
                        ctx.count("bulk_reads_skipped_known_ub_under_sanitizer");
                        continue;
                    }
                    // read back in bulk versus element-wise
                    let single_vals: Vec<Option<Val>> = idx
                        .iter()
                        .map(|k| match e.ops.bare_de(&singles[*k], v) {
                            Outcome::Ok((x, _)) => Some(x),
                            _ => None,
                        })
                        .collect();
                    if single_vals.iter().all(|x| x.is_some()) {
                        let single_vals: Vec<Val> = single_vals.into_iter().map(|x| x.unwrap()).collect();
                        match w.bare_de(&expected, v) {
                            Outcome::Ok((items, used)) => {
                                if items != single_vals || used != expected.len() {
                                    ctx.violation(
                                        &raw_sig("C04:bulk-read-differs-from-elementwise"),
                                        &s.label,
                                        mk(format!("bulk read {} vs element-wise {}", model::val_brief(&Val::Seq(items), 200), model::val_brief(&Val::Seq(single_vals), 200)), &expected),
                                    );
                                } else {
                                    ctx.count("bulk_read_equals_elementwise");
                                }
                            }
                            o => ctx.violation(&raw_sig("C04:bulk-read-fails"), &s.label, mk(o.brief(), &expected)),
                        }
                    }
                }
                o => ctx.violation("C04:bulk-write-fails", &s.label, mk(o.brief(), &[])),
            }
            if wname == "Vec<T>" {
                // &[T] has only a serializer
                match e.ops.slice_ser(&elems, v) {
                    Outcome::Ok(b) => {
                        if deterministic && b != expected {
                            ctx.violation(&raw_sig("C04:bulk-bytes-differ-from-elementwise"), &s.label, mk("&[T] bytes differ from the concatenation of element bytes".into(), &b));
                        } else {
                            ctx.count("slice_write_equals_elementwise");
                        }
                    }
                    o => ctx.violation("C04:bulk-write-fails", &s.label, mk(format!("&[T]: {}", o.brief()), &[])),
                }
            }
        }
        if packed && ctx.evaluations % 7 == 0 {
            ctx.sample("packed-type", J::obj(vec![("type", J::s(s.label.clone())), ("definition", J::s(e.def)), ("version", J::i(v)), ("size_of", J::i(e.ops.size_of()))]));
        }
    }
}

/// Recognise the two recorded layout findings by their structure (the alternate prediction
/// "raw memory including padding is written" cannot be compared byte for byte).
fn layout_sig(shape: &Shape, version: u32) -> Option<String> {
    match shape {
        // ArrayVec<T,N> reports itself bulk-copyable whenever T is, although its memory is
        // [T;N] + length and its wire form is length + elements
        Shape::Seq(_, model::SeqKind::Cap(_)) => Some("C04:arrayvec-declared-packed".to_string()),
        // #[repr(uN)] enum mixing field-less variants with equally sized data variants: the
        // field-less variants are padded in memory but not on the wire
        Shape::Enum(_, w, variants) => {
            let sizes: Vec<Option<usize>> = variants
                .iter()
                .map(|var| {
                    let mut t = 0usize;
                    for f in &var.fields {
                        if f.on_wire(version) {
                            t += model::fixed_size(&f.shape, version)?;
                        }
                    }
                    Some(t)
                })
                .collect();
            let data: Vec<usize> = sizes.iter().filter_map(|x| *x).filter(|x| *x > 0).collect();
            let has_unit = sizes.iter().any(|x| *x == Some(0));
            if has_unit && !data.is_empty() && data.iter().all(|x| *x == data[0]) && sizes.iter().all(|x| x.is_some()) {
                let _ = w;
                Some("C04:enum-unit-variant-declared-packed".to_string())
            } else {
                None
            }
        }
        _ => None,
    }
}
