//! The property checks. Each `cNN::run` drives the real code with generated
//! workloads and reports what the oracles observed through `Ctx`.

use crate::ctx::Ctx;
use crate::model::{self, GenCfg, Shape, Val};
use crate::ops::{Outcome, TypeEntry};
use crate::registry::Registry;
use crate::util::{catch, hex_trunc, Rng, J};

pub mod c01;
pub mod c02;
pub mod c03;
pub mod c04;
pub mod c05;
pub mod c06;
pub mod c07;
pub mod c08;
pub mod c12;
pub mod c13;
pub mod c17;
pub mod c14;
pub mod io;
pub mod c18;

/// A type under test at a given current version, with a label for reports.
pub struct Subject<'a> {
    pub e: &'a TypeEntry,
    pub label: String,
    pub index: usize,
}

/// library + zoo types, followed by every version of every evolution family
pub fn subjects<'a>(reg: &'a Registry) -> Vec<Subject<'a>> {
    let mut out = vec![];
    for e in reg.types.iter() {
        let i = out.len();
        out.push(Subject { e, label: e.name(), index: i });
    }
    for f in reg.families.iter() {
        for (k, e) in f.versions.iter().enumerate() {
            let i = out.len();
            out.push(Subject { e, label: format!("{}@v{}", f.name, k), index: i });
        }
    }
    out
}

/// Generate `n` distinct normalised values of the subject's type, writable at `version`.
pub fn gen_values(ctx: &mut Ctx, e: &TypeEntry, rng: &mut Rng, n: usize, version: u32) -> Vec<Val> {
    let shape = e.ops.shape();
    let mut out: Vec<Val> = vec![];
    let mut tries = 0;
    while out.len() < n && tries < n * 4 {
        tries += 1;
        let budget = *rng.pick(&[4usize, 12, 40, 40, 120, 300]);
        let g = model::gen_val(&shape, rng, &GenCfg { budget, version });
        match catch(|| e.ops.normalize(&g)) {
            Ok(v) => {
                if !out.contains(&v) {
                    out.push(v);
                }
            }
            Err(p) => {
                ctx.inconclusive(format!("harness: normalize panicked for {}: {}", e.name(), p));
                break;
            }
        }
    }
    out
}

/// Interpreted / heavily instrumented runs (Miri, valgrind) are 100-10000x slower: they keep every
/// subject that has a bulk-copy path and a sample of the others, with fewer values each.
pub fn slow_build() -> bool {
    cfg!(miri) || std::env::var("VH_SLOW").is_ok()
}
pub fn slow_keep(s: &Subject) -> bool {
    if !slow_build() {
        return true;
    }
    // values with thousands of elements / definitions with hundreds of variants cost minutes each under the interpreter
    if s.label.contains("10001") || s.label.contains("Cur25") || s.label.contains("CurBig") {
        return false;
    }
    (0..=s.e.version).any(|v| s.e.ops.packed(v)) || s.index % 7 == 0
}
pub fn nvals(ctx: &Ctx, quick: usize, thorough: usize) -> usize {
    if slow_build() {
        2
    } else {
        ctx.t(quick, thorough)
    }
}

pub fn outcome_brief<T>(o: &Outcome<T>) -> String {
    o.brief()
}

pub fn case_json(subject: &str, def: &str, version: u32, v: &Val, bytes: Option<&[u8]>) -> J {
    let mut j = J::obj(vec![("type", J::s(subject)), ("version", J::i(version)), ("value", J::s(model::val_brief(v, 300)))]);
    if !def.is_empty() {
        j.push("definition", J::s(def));
    }
    if let Some(b) = bytes {
        j.push("bytes_hex", J::s(hex_trunc(b, 96)));
        j.push("bytes_len", J::i(b.len()));
    }
    j
}

/// Does the shape contain an enum whose declared discriminant values differ from the variant indices?
pub fn has_explicit_discr(s: &Shape) -> bool {
    match s {
        Shape::Seq(i, _) | Shape::Opt(i) | Shape::Array(_, i) => has_explicit_discr(i),
        Shape::Map(a, b, _) | Shape::Res(a, b) => has_explicit_discr(a) || has_explicit_discr(b),
        Shape::Tuple(shapes) => shapes.iter().any(has_explicit_discr),
        Shape::Struct(_, fields) => fields.iter().any(|f| has_explicit_discr(&f.shape)),
        Shape::Enum(_, _, variants) => {
            variants.iter().enumerate().any(|(i, v)| v.discr != i as i128) || variants.iter().any(|v| v.fields.iter().any(|f| has_explicit_discr(&f.shape)))
        }
        _ => false,
    }
}

pub fn run(prop: &str, ctx: &mut Ctx, reg: &Registry) {
    match prop {
        "C01" => c01::run(ctx, reg),
        "C02" => c02::run(ctx, reg),
        "C03" => c03::run(ctx, reg),
        "C04" => c04::run(ctx, reg),
        "C05" => c05::run(ctx, reg),
        "C06" => c06::run(ctx, reg),
        "C07" => c07::run(ctx, reg),
        "C08" => c08::run(ctx, reg),
        "C14" => c14::run(ctx, reg),
        "C12" => c12::run(ctx, reg),
        "C13" => c13::run(ctx, reg),
        "C17" => c17::run(ctx, reg),
        "C18" => c18::run(ctx, reg),
        _ => ctx.inconclusive(format!("unknown property {}", prop)),
    }
}
