//! Run one scenario group per child process, so that a crash (abort inside an extern "C"
//! frame, poisoned global mutex, deadlock) is attributed to that group and cannot cascade.

use crate::ctx::Ctx;
use crate::util::J;

pub fn child_item() -> Option<usize> {
    std::env::var("VA_ITEM").ok().and_then(|x| x.parse().ok())
}
pub fn in_process() -> bool {
    std::env::var("VH_INPROC").is_ok() || cfg!(miri)
}

/// Spawn this executable for item `idx` of property `prop`; merge its report into `ctx`.
/// Returns false if the child died or hung (a violation has then been recorded).
pub fn run_child(ctx: &mut Ctx, prop: &str, idx: usize, label: &str, timeout_s: u64, died_sig: &str) -> bool {
    let exe = std::env::current_exe().expect("current_exe");
    let dir = std::env::var("VH_TMP").unwrap_or_else(|_| "/tmp".into());
    let report = format!("{}/va_{}_{}_{}.json", dir, prop, std::process::id(), idx);
    let errfile = format!("{}/va_{}_{}_{}.stderr", dir, prop, std::process::id(), idx);
    let _ = std::fs::remove_file(&report);
    let spawned = std::fs::File::create(&errfile).and_then(|ef| {
        std::process::Command::new(&exe)
            .arg(prop)
            .arg("--seed")
            .arg(ctx.seed.to_string())
            .arg("--tier")
            .arg(if ctx.quick() { "quick" } else { "thorough" })
            .arg("--out")
            .arg(&report)
            .arg("--build")
            .arg(&ctx.build)
            .env("VA_ITEM", idx.to_string())
            .stdout(std::process::Stdio::null())
            .stderr(ef)
            .spawn()
    });
    let Ok(mut child) = spawned else {
        ctx.inconclusive("could not spawn child process");
        return false;
    };
    let t0 = std::time::Instant::now();
    let mut hung = false;
    // Deadlock verdicts are taken on the child's own CPU time, not on the wall clock: a child that has run
    // longer than `timeout_s` AND has consumed (almost) no CPU during the last QUIET seconds has all its
    // threads blocked. A child that is still computing is left alone up to a generous hard cap, whose expiry
    // is inconclusive.
    const QUIET: u64 = 20;
    let cpu_ticks = |pid: u32| -> Option<u64> {
        let t = std::fs::read_to_string(format!("/proc/{}/stat", pid)).ok()?;
        let i = t.rfind(')')?;
        let f: Vec<&str> = t[i + 1..].split_whitespace().collect();
        Some(f.get(11)?.parse::<u64>().ok()? + f.get(12)?.parse::<u64>().ok()?)
    };
    let mut samples: std::collections::VecDeque<(std::time::Instant, u64)> = std::collections::VecDeque::new();
    let mut last_sample = std::time::Instant::now();
    let status = loop {
        match child.try_wait() {
            Ok(Some(st)) => break Some(st),
            Ok(None) => {}
            Err(_) => break None,
        }
        if last_sample.elapsed().as_millis() >= 250 {
            last_sample = std::time::Instant::now();
            if let Some(c) = cpu_ticks(child.id()) {
                samples.push_back((last_sample, c));
                while samples.len() > 2 && samples[1].0.elapsed().as_secs() >= QUIET {
                    samples.pop_front();
                }
            }
        }
        let quiet = match (samples.front(), samples.back()) {
            (Some(a), Some(b)) => a.0.elapsed().as_secs() >= QUIET && b.1.saturating_sub(a.1) < 3,
            _ => false,
        };
        let overdue = t0.elapsed().as_secs() > timeout_s;
        let hard_cap = t0.elapsed().as_secs() > timeout_s * 20;
        if (overdue && quiet) || hard_cap {
            // diagnose before killing: where are the threads?
            hung = true;
            let stacks = std::process::Command::new("gdb")
                .args(["-p", &child.id().to_string(), "-batch", "-ex", "thread apply all bt 12"])
                .output()
                .map(|o| String::from_utf8_lossy(&o.stdout).to_string())
                .unwrap_or_default();
            let _ = child.kill();
            let _ = child.wait();
            let mut tail = stacks;
            if tail.len() > 3000 {
                tail = tail[tail.len() - 3000..].to_string();
            }
            if overdue && quiet {
                ctx.violation(
                    &format!("{}:deadlock", prop),
                    label,
                    J::obj(vec![("observed", J::s(format!("running for {} s and no CPU time consumed during the last {} s: every thread is blocked", t0.elapsed().as_secs(), QUIET))), ("stacks", J::s(tail))]),
                );
            } else {
                ctx.inconclusive(format!("watchdog: child for {} still computing after {} s (killed)", label, t0.elapsed().as_secs()));
            }
            break None;
        }
        std::thread::sleep(std::time::Duration::from_millis(5));
    };
    let mut ok = false;
    if let Ok(text) = std::fs::read_to_string(&report) {
        if let Ok(j) = crate::util::parse_json(&text) {
            ctx.merge(&j);
            ok = true;
        }
    }
    let stderr = std::fs::read_to_string(&errfile).unwrap_or_default();
    let _ = std::fs::remove_file(&report);
    let _ = std::fs::remove_file(&errfile);
    if hung {
        return false;
    }
    match status {
        Some(st) if st.success() && ok => true,
        Some(st) => {
            let tail = if stderr.len() > 1500 { stderr[stderr.len() - 1500..].to_string() } else { stderr };
            ctx.violation(died_sig, label, J::obj(vec![("exit_status", J::s(format!("{}", st))), ("stderr_tail", J::s(tail))]));
            false
        }
        None => false,
    }
}
