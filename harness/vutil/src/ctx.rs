//! Run context shared by all checks: counters, distinct-case hashing, samples,
//! violations; rendered as one JSON report that the driver merges.

use crate::util::{fnv64, J};
use std::collections::{BTreeMap, HashSet};

#[derive(Clone, Copy, Debug, PartialEq, Eq)]
pub enum Tier {
    Quick,
    Thorough,
}

pub struct Ctx {
    pub prop: String,
    pub seed: u64,
    pub tier: Tier,
    pub shard: usize,
    pub nshards: usize,
    pub build: String,
    pub evaluations: u64,
    distinct: HashSet<u64>,
    pub counters: BTreeMap<String, u64>,
    samples: Vec<J>,
    sample_labels: BTreeMap<String, u32>,
    violations: Vec<J>,
    violation_keys: BTreeMap<String, u64>,
    pub inconclusive: Vec<String>,
    pub notes: Vec<String>,
    pub type_filter: Option<String>,
    pub max_samples_per_label: u32,
}

impl Ctx {
    pub fn new(prop: &str, seed: u64, tier: Tier, shard: usize, nshards: usize, build: &str) -> Ctx {
        Ctx {
            prop: prop.to_string(),
            seed,
            tier,
            shard,
            nshards,
            build: build.to_string(),
            evaluations: 0,
            distinct: HashSet::new(),
            counters: BTreeMap::new(),
            samples: vec![],
            sample_labels: BTreeMap::new(),
            violations: vec![],
            violation_keys: BTreeMap::new(),
            inconclusive: vec![],
            notes: vec![],
            type_filter: None,
            max_samples_per_label: 2,
        }
    }
    pub fn quick(&self) -> bool {
        self.tier == Tier::Quick
    }
    /// pick by tier
    pub fn t<T>(&self, quick: T, thorough: T) -> T {
        // instrumented native builds (ASan, TSan, valgrind) cost 4-25x: they keep the quick-tier sizes in the
        // thorough tier too and gain from the additional shards and the fresh zoo instead
        if self.quick() || (std::env::var("VH_SANITIZER").is_ok() && !cfg!(miri)) {
            quick
        } else {
            thorough
        }
    }
    /// does this shard handle item number `i`?
    pub fn mine(&self, i: usize) -> bool {
        i % self.nshards == self.shard
    }
    pub fn wants_type(&self, name: &str) -> bool {
        match &self.type_filter {
            None => true,
            Some(f) => name.contains(f.as_str()),
        }
    }
    pub fn eval(&mut self) {
        self.evaluations += 1;
    }
    pub fn evals(&mut self, n: u64) {
        self.evaluations += n;
    }
    /// record a distinct non-trivial case (by key)
    pub fn distinct(&mut self, key: &str) {
        self.distinct.insert(fnv64(key.as_bytes()));
    }
    pub fn distinct_raw(&mut self, h: u64) {
        self.distinct.insert(h);
    }
    pub fn count(&mut self, name: &str) {
        *self.counters.entry(name.to_string()).or_insert(0) += 1;
    }
    pub fn count_n(&mut self, name: &str, n: u64) {
        *self.counters.entry(name.to_string()).or_insert(0) += n;
    }
    pub fn sample(&mut self, label: &str, j: J) {
        let c = self.sample_labels.entry(label.to_string()).or_insert(0);
        if *c < self.max_samples_per_label && self.samples.len() < 60 {
            *c += 1;
            let mut o = J::obj(vec![("kind", J::s(label))]);
            if let J::Obj(items) = j {
                for (k, v) in items {
                    o.push(&k, v);
                }
            } else {
                o.push("case", j);
            }
            self.samples.push(o);
        }
    }
    /// Record a violation. `sig` identifies *what* failed (compared against KNOWN_FINDINGS),
    /// `subject` the type / interface / scenario it failed on.
    pub fn violation(&mut self, sig: &str, subject: &str, detail: J) {
        let key = format!("{}|{}", sig, subject);
        let n = self.violation_keys.entry(key).or_insert(0);
        *n += 1;
        if *n > 3 || self.violations.len() >= 400 {
            return;
        }
        self.violations.push(J::obj(vec![
            ("sig", J::s(sig)),
            ("subject", J::s(subject)),
            ("build", J::s(self.build.clone())),
            ("seed", J::i(self.seed)),
            ("detail", detail),
        ]));
    }
    pub fn violation_count(&self) -> usize {
        self.violation_keys.values().map(|x| *x as usize).sum()
    }
    pub fn inconclusive(&mut self, why: impl Into<String>) {
        let w = why.into();
        if self.inconclusive.len() < 50 && !self.inconclusive.contains(&w) {
            self.inconclusive.push(w);
        }
    }
    pub fn note(&mut self, n: impl Into<String>) {
        let n = n.into();
        if self.notes.len() < 50 && !self.notes.contains(&n) {
            self.notes.push(n);
        }
    }
    /// Merge the report of a child process (same format as `report`) into this context.
    pub fn merge(&mut self, j: &J) {
        if let Some(n) = j.get("evaluations").and_then(|x| x.as_int()) {
            self.evals(n as u64);
        }
        if let Some(J::Obj(items)) = j.get("counters") {
            for (k, v) in items {
                if let Some(n) = v.as_int() {
                    self.count_n(k, n as u64);
                }
            }
        }
        if let Some(J::Arr(hs)) = j.get("distinct_hashes") {
            for h in hs {
                if let Some(s) = h.as_str() {
                    self.distinct_raw(u64::from_str_radix(s, 16).unwrap_or(0));
                }
            }
        }
        if let Some(J::Arr(vs)) = j.get("violations") {
            for v in vs {
                let sig = v.get("sig").and_then(|x| x.as_str()).unwrap_or("?").to_string();
                let subj = v.get("subject").and_then(|x| x.as_str()).unwrap_or("?").to_string();
                self.violation(&sig, &subj, v.get("detail").cloned().unwrap_or(J::Null));
            }
        }
        if let Some(J::Arr(xs)) = j.get("inconclusive") {
            for x in xs {
                if let Some(s) = x.as_str() {
                    self.inconclusive(s.to_string());
                }
            }
        }
        if let Some(J::Arr(xs)) = j.get("notes") {
            for x in xs {
                if let Some(s) = x.as_str() {
                    self.note(s.to_string());
                }
            }
        }
        if let Some(J::Arr(xs)) = j.get("samples") {
            for x in xs {
                let label = x.get("kind").and_then(|k| k.as_str()).unwrap_or("child").to_string();
                self.sample_raw(&label, x.clone());
            }
        }
    }
    fn sample_raw(&mut self, label: &str, j: J) {
        let c = self.sample_labels.entry(label.to_string()).or_insert(0);
        if *c < self.max_samples_per_label && self.samples.len() < 60 {
            *c += 1;
            self.samples.push(j);
        }
    }
    pub fn report(&self) -> J {
        let mut hashes: Vec<J> = self.distinct.iter().map(|h| J::s(format!("{:016x}", h))).collect();
        hashes.sort_by(|a, b| a.render().cmp(&b.render()));
        J::obj(vec![
            ("property", J::s(self.prop.clone())),
            ("seed", J::i(self.seed)),
            ("tier", J::s(if self.quick() { "quick" } else { "thorough" })),
            ("shard", J::i(self.shard)),
            ("nshards", J::i(self.nshards)),
            ("build", J::s(self.build.clone())),
            ("evaluations", J::i(self.evaluations)),
            ("distinct_hashes", J::Arr(hashes)),
            ("counters", J::Obj(self.counters.iter().map(|(k, v)| (k.clone(), J::i(*v))).collect())),
            ("samples", J::Arr(self.samples.clone())),
            ("violations", J::Arr(self.violations.clone())),
            (
                "violation_counts",
                J::Obj(self.violation_keys.iter().map(|(k, v)| (k.clone(), J::i(*v))).collect()),
            ),
            ("inconclusive", J::Arr(self.inconclusive.iter().map(|x| J::s(x.clone())).collect())),
            ("notes", J::Arr(self.notes.iter().map(|x| J::s(x.clone())).collect())),
        ])
    }
}
