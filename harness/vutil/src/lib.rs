//! Dependency-free helpers shared by all harness crates (PRNG, JSON, run context).
pub mod ctx;
pub mod isolate;
pub mod util;
