//! Small self-contained helpers: PRNG, JSON writer, hex, hashing.
//! Hand written (no external crates) so the same code runs under Miri.

use std::fmt::Write as _;

/// xoshiro256** seeded through splitmix64.
#[derive(Clone, Debug)]
pub struct Rng {
    s: [u64; 4],
}

impl Rng {
    pub fn new(seed: u64) -> Rng {
        let mut x = seed.wrapping_add(0x9E3779B97F4A7C15);
        let mut s = [0u64; 4];
        for slot in s.iter_mut() {
            x = x.wrapping_add(0x9E3779B97F4A7C15);
            let mut z = x;
            z = (z ^ (z >> 30)).wrapping_mul(0xBF58476D1CE4E5B9);
            z = (z ^ (z >> 27)).wrapping_mul(0x94D049BB133111EB);
            *slot = z ^ (z >> 31);
        }
        Rng { s }
    }
    /// Derive an independent stream from this seed and a label.
    pub fn derive(seed: u64, label: &str) -> Rng {
        Rng::new(seed ^ fnv64(label.as_bytes()))
    }
    pub fn next_u64(&mut self) -> u64 {
        let result = self.s[1].wrapping_mul(5).rotate_left(7).wrapping_mul(9);
        let t = self.s[1] << 17;
        self.s[2] ^= self.s[0];
        self.s[3] ^= self.s[1];
        self.s[1] ^= self.s[2];
        self.s[0] ^= self.s[3];
        self.s[2] ^= t;
        self.s[3] = self.s[3].rotate_left(45);
        result
    }
    pub fn next_u128(&mut self) -> u128 {
        ((self.next_u64() as u128) << 64) | self.next_u64() as u128
    }
    /// uniform in 0..n (n>0)
    pub fn below(&mut self, n: usize) -> usize {
        if n <= 1 {
            return 0;
        }
        (self.next_u64() % (n as u64)) as usize
    }
    pub fn range(&mut self, lo: usize, hi_incl: usize) -> usize {
        lo + self.below(hi_incl - lo + 1)
    }
    pub fn chance(&mut self, num: u32, den: u32) -> bool {
        (self.next_u64() % den as u64) < num as u64
    }
    pub fn pick<'a, T>(&mut self, xs: &'a [T]) -> &'a T {
        &xs[self.below(xs.len())]
    }
    pub fn bytes(&mut self, n: usize) -> Vec<u8> {
        let mut v = Vec::with_capacity(n);
        while v.len() < n {
            let x = self.next_u64().to_le_bytes();
            let take = (n - v.len()).min(8);
            v.extend_from_slice(&x[..take]);
        }
        v
    }
}

pub fn fnv64(data: &[u8]) -> u64 {
    let mut h: u64 = 0xcbf29ce484222325;
    for b in data {
        h ^= *b as u64;
        h = h.wrapping_mul(0x100000001b3);
    }
    h
}

pub fn hex(data: &[u8]) -> String {
    let mut s = String::with_capacity(data.len() * 2);
    for b in data {
        let _ = write!(s, "{:02x}", b);
    }
    s
}

pub fn unhex(s: &str) -> Vec<u8> {
    let b = s.as_bytes();
    let mut out = Vec::with_capacity(b.len() / 2);
    let val = |c: u8| -> u8 {
        match c {
            b'0'..=b'9' => c - b'0',
            b'a'..=b'f' => c - b'a' + 10,
            b'A'..=b'F' => c - b'A' + 10,
            _ => 0,
        }
    };
    let mut i = 0;
    while i + 1 < b.len() {
        out.push(val(b[i]) * 16 + val(b[i + 1]));
        i += 2;
    }
    out
}

/// hex of at most `max` bytes, with a total length note
pub fn hex_trunc(data: &[u8], max: usize) -> String {
    if data.len() <= max {
        hex(data)
    } else {
        format!("{}..(+{} bytes)", hex(&data[..max]), data.len() - max)
    }
}

/// Minimal JSON value for reports.
#[derive(Clone, Debug, PartialEq)]
pub enum J {
    Null,
    Bool(bool),
    Int(i128),
    Str(String),
    Arr(Vec<J>),
    Obj(Vec<(String, J)>),
}

impl J {
    pub fn s(x: impl Into<String>) -> J {
        J::Str(x.into())
    }
    pub fn i(x: impl TryInto<i128>) -> J {
        J::Int(x.try_into().ok().unwrap_or(i128::MAX))
    }
    pub fn obj(items: Vec<(&str, J)>) -> J {
        J::Obj(items.into_iter().map(|(k, v)| (k.to_string(), v)).collect())
    }
    /// builder-style push
    pub fn with(mut self, k: &str, v: J) -> J {
        self.push(k, v);
        self
    }
    pub fn push(&mut self, k: &str, v: J) {
        if let J::Obj(o) = self {
            o.push((k.to_string(), v));
        }
    }
    pub fn render(&self) -> String {
        let mut s = String::new();
        self.write(&mut s);
        s
    }
    fn write(&self, out: &mut String) {
        match self {
            J::Null => out.push_str("null"),
            J::Bool(b) => out.push_str(if *b { "true" } else { "false" }),
            J::Int(i) => {
                let _ = write!(out, "{}", i);
            }
            J::Str(s) => write_json_str(s, out),
            J::Arr(a) => {
                out.push('[');
                for (i, x) in a.iter().enumerate() {
                    if i > 0 {
                        out.push(',');
                    }
                    x.write(out);
                }
                out.push(']');
            }
            J::Obj(o) => {
                out.push('{');
                for (i, (k, v)) in o.iter().enumerate() {
                    if i > 0 {
                        out.push(',');
                    }
                    write_json_str(k, out);
                    out.push(':');
                    v.write(out);
                }
                out.push('}');
            }
        }
    }
}

fn write_json_str(s: &str, out: &mut String) {
    out.push('"');
    for c in s.chars() {
        match c {
            '"' => out.push_str("\\\""),
            '\\' => out.push_str("\\\\"),
            '\n' => out.push_str("\\n"),
            '\r' => out.push_str("\\r"),
            '\t' => out.push_str("\\t"),
            c if (c as u32) < 0x20 => {
                let _ = write!(out, "\\u{:04x}", c as u32);
            }
            c => out.push(c),
        }
    }
    out.push('"');
}

/// Tiny JSON parser (for replay files and specs). Numbers are integers only.
pub fn parse_json(s: &str) -> Result<J, String> {
    let b = s.as_bytes();
    let mut p = 0usize;
    let v = parse_val(b, &mut p)?;
    skip_ws(b, &mut p);
    if p != b.len() {
        return Err(format!("trailing data at {}", p));
    }
    Ok(v)
}
fn skip_ws(b: &[u8], p: &mut usize) {
    while *p < b.len() && (b[*p] as char).is_whitespace() {
        *p += 1;
    }
}
fn parse_val(b: &[u8], p: &mut usize) -> Result<J, String> {
    skip_ws(b, p);
    if *p >= b.len() {
        return Err("eof".into());
    }
    match b[*p] {
        b'n' => {
            *p += 4;
            Ok(J::Null)
        }
        b't' => {
            *p += 4;
            Ok(J::Bool(true))
        }
        b'f' => {
            *p += 5;
            Ok(J::Bool(false))
        }
        b'"' => Ok(J::Str(parse_str(b, p)?)),
        b'[' => {
            *p += 1;
            let mut v = vec![];
            loop {
                skip_ws(b, p);
                if *p < b.len() && b[*p] == b']' {
                    *p += 1;
                    break;
                }
                v.push(parse_val(b, p)?);
                skip_ws(b, p);
                if *p < b.len() && b[*p] == b',' {
                    *p += 1;
                }
            }
            Ok(J::Arr(v))
        }
        b'{' => {
            *p += 1;
            let mut v = vec![];
            loop {
                skip_ws(b, p);
                if *p < b.len() && b[*p] == b'}' {
                    *p += 1;
                    break;
                }
                let k = parse_str(b, p)?;
                skip_ws(b, p);
                if *p >= b.len() || b[*p] != b':' {
                    return Err(format!("expected : at {}", p));
                }
                *p += 1;
                let val = parse_val(b, p)?;
                v.push((k, val));
                skip_ws(b, p);
                if *p < b.len() && b[*p] == b',' {
                    *p += 1;
                }
            }
            Ok(J::Obj(v))
        }
        _ => {
            let start = *p;
            while *p < b.len() && (b[*p] == b'-' || b[*p].is_ascii_digit()) {
                *p += 1;
            }
            let t = std::str::from_utf8(&b[start..*p]).map_err(|e| e.to_string())?;
            // skip fractional part if any
            while *p < b.len() && (b[*p] == b'.' || b[*p] == b'e' || b[*p] == b'E' || b[*p] == b'+' || b[*p].is_ascii_digit()) {
                *p += 1;
            }
            t.parse::<i128>().map(J::Int).map_err(|e| format!("bad number {:?}: {}", t, e))
        }
    }
}
fn parse_str(b: &[u8], p: &mut usize) -> Result<String, String> {
    if b[*p] != b'"' {
        return Err(format!("expected string at {}", p));
    }
    *p += 1;
    let mut out: Vec<u8> = vec![];
    while *p < b.len() {
        match b[*p] {
            b'"' => {
                *p += 1;
                return String::from_utf8(out).map_err(|e| e.to_string());
            }
            b'\\' => {
                *p += 1;
                match b[*p] {
                    b'n' => out.push(b'\n'),
                    b'r' => out.push(b'\r'),
                    b't' => out.push(b'\t'),
                    b'u' => {
                        let h = std::str::from_utf8(&b[*p + 1..*p + 5]).map_err(|e| e.to_string())?;
                        let cp = u32::from_str_radix(h, 16).map_err(|e| e.to_string())?;
                        let ch = char::from_u32(cp).unwrap_or('?');
                        let mut tmp = [0u8; 4];
                        out.extend_from_slice(ch.encode_utf8(&mut tmp).as_bytes());
                        *p += 4;
                    }
                    c => out.push(c),
                }
                *p += 1;
            }
            c => {
                out.push(c);
                *p += 1;
            }
        }
    }
    Err("unterminated string".into())
}

impl J {
    pub fn get(&self, k: &str) -> Option<&J> {
        match self {
            J::Obj(o) => o.iter().find(|(kk, _)| kk == k).map(|(_, v)| v),
            _ => None,
        }
    }
    pub fn as_str(&self) -> Option<&str> {
        match self {
            J::Str(s) => Some(s),
            _ => None,
        }
    }
    pub fn as_int(&self) -> Option<i128> {
        match self {
            J::Int(i) => Some(*i),
            _ => None,
        }
    }
    pub fn as_arr(&self) -> Option<&Vec<J>> {
        match self {
            J::Arr(a) => Some(a),
            _ => None,
        }
    }
}

/// Run `f`, converting a panic into Err(message). The default panic hook is
/// silenced during the call (hook state is process-global; callers are single
/// threaded except C16 which does not use this).
pub fn catch<R>(f: impl FnOnce() -> R) -> Result<R, String> {
    let r = std::panic::catch_unwind(std::panic::AssertUnwindSafe(f));
    match r {
        Ok(v) => Ok(v),
        Err(e) => {
            let msg = if let Some(s) = e.downcast_ref::<&str>() {
                s.to_string()
            } else if let Some(s) = e.downcast_ref::<String>() {
                s.clone()
            } else {
                "<non-string panic payload>".to_string()
            };
            Err(msg)
        }
    }
}

pub fn silence_panics() {
    std::panic::set_hook(Box::new(|_| {}));
}
