use vh::ctx::{Ctx, Tier};

fn arg(args: &[String], name: &str) -> Option<String> {
    args.iter().position(|a| a == name).and_then(|i| args.get(i + 1).cloned())
}

fn main() {
    let args: Vec<String> = std::env::args().collect();
    if args.len() < 2 {
        eprintln!("usage: va <C09|C10|C11|C15|C16> [--seed N] [--tier quick|thorough] [--shard i/n] [--out file] [--type substr] [--build label]");
        std::process::exit(2);
    }
    let prop = args[1].clone();
    if prop == "noop" {
        return;
    }
    let seed: u64 = arg(&args, "--seed").and_then(|s| s.parse().ok()).unwrap_or(1);
    let tier = match arg(&args, "--tier").as_deref() {
        Some("thorough") => Tier::Thorough,
        _ => Tier::Quick,
    };
    let (shard, nshards) = arg(&args, "--shard")
        .and_then(|s| {
            let mut it = s.split('/');
            Some((it.next()?.parse().ok()?, it.next()?.parse().ok()?))
        })
        .unwrap_or((0usize, 1usize));
    let build = arg(&args, "--build").unwrap_or_else(|| if cfg!(debug_assertions) { "debug".into() } else { "release".into() });
    if std::env::var("VH_LOUD_PANICS").is_err() {
        vcore::util::silence_panics();
    }
    let mut ctx = Ctx::new(&prop, seed, tier, shard, nshards, &build);
    ctx.type_filter = arg(&args, "--type");
    let t0 = std::time::Instant::now();
    match prop.as_str() {
        "C09" => vabi::c09::run(&mut ctx),
        "C10" => vabi::c10::run(&mut ctx),
        "C11" => vabi::c11::run(&mut ctx),
        "C15" => vabi::c15::run(&mut ctx),
        _ => ctx.inconclusive(format!("unknown property {}", prop)),
    }
    let mut rep = ctx.report();
    rep.push("wall_ms", vcore::util::J::i(t0.elapsed().as_millis() as u64));
    let text = rep.render();
    match arg(&args, "--out") {
        Some(p) => {
            // atomic: several interpreter seeds of one process may finish at the same time
            let nonce = std::time::SystemTime::now().duration_since(std::time::UNIX_EPOCH).map(|d| d.subsec_nanos()).unwrap_or(0) as usize ^ (&text as *const String as usize);
            let tmp = format!("{}.{:x}.tmp", p, nonce);
            std::fs::write(&tmp, text).expect("write report");
            std::fs::rename(&tmp, p).expect("rename report");
        }
        None => println!("{}", text),
    }
}
