//! C15 The ABI compatibility ledger accepts compatible and rejects breaking changes.
//! Histories of `verify_compatiblity` runs over revisions of an interface in a
//! temporary directory; the generator / the revision table labels each step.

use savefile_derive::savefile_abi_exportable;
use std::collections::BTreeMap;
use vcore::util::J;
use vh::ctx::Ctx;

type Verify = fn(&str) -> Result<(), String>;

macro_rules! rev {
    ($m:ident, $ver:expr, { $($body:tt)* }) => {
        pub mod $m {
            use super::*;
            #[savefile_abi_exportable(version = $ver)]
            pub trait Ledger { $($body)* }
            pub fn verify(dir: &str) -> Result<(), String> {
                savefile_abi::verify_compatiblity::<dyn Ledger>(dir).map_err(|e| format!("{:?}", e))
            }
        }
    };
}

rev!(base, 0, { fn a(&self, x: u32) -> u32; fn b(&self, s: String) -> String; });
rev!(plus_method, 0, { fn a(&self, x: u32) -> u32; fn b(&self, s: String) -> String; fn c(&mut self, v: Vec<u8>); });
rev!(minus_method, 0, { fn a(&self, x: u32) -> u32; });
rev!(arg_count, 0, { fn a(&self, x: u32, y: u32) -> u32; fn b(&self, s: String) -> String; });
rev!(arg_type, 0, { fn a(&self, x: u64) -> u32; fn b(&self, s: String) -> String; });
rev!(ret_type, 0, { fn a(&self, x: u32) -> u64; fn b(&self, s: String) -> String; });
rev!(reordered, 0, { fn b(&self, s: String) -> String; fn a(&self, x: u32) -> u32; });

// a richer base revision (closures, boxed closures, futures, a method without arguments) and one breaking
// variant per kind of change and position (first / last method, first / last argument, nested positions)
macro_rules! rich {
    ($m:ident, { $($body:tt)* }) => {
        pub mod $m {
            use super::*;
            use std::future::Future;
            use std::pin::Pin;
            #[savefile_abi_exportable(version = 0)]
            pub trait Ledger { $($body)* }
            pub fn verify(dir: &str) -> Result<(), String> {
                savefile_abi::verify_compatiblity::<dyn Ledger>(dir).map_err(|e| format!("{:?}", e))
            }
        }
    };
}
rich!(rich_base, {
    fn first(&self, x: u32) -> u32;
    fn noargs(&self) -> u32;
    fn cb(&self, f: &dyn Fn(u32) -> u32) -> u32;
    fn bcb(&self, f: Box<dyn Fn(u32) -> u32>) -> u32;
    fn fut(&self, x: u32) -> Pin<Box<dyn Future<Output = u32>>>;
    fn last(&self, a: u8, b: u16) -> u8;
});
rich!(rich_plus, {
    fn first(&self, x: u32) -> u32;
    fn noargs(&self) -> u32;
    fn cb(&self, f: &dyn Fn(u32) -> u32) -> u32;
    fn bcb(&self, f: Box<dyn Fn(u32) -> u32>) -> u32;
    fn fut(&self, x: u32) -> Pin<Box<dyn Future<Output = u32>>>;
    fn last(&self, a: u8, b: u16) -> u8;
    fn added(&self, s: &str) -> String;
});
rich!(rich_noargs_gains_arg, {
    fn first(&self, x: u32) -> u32;
    fn noargs(&self, x: u8) -> u32;
    fn cb(&self, f: &dyn Fn(u32) -> u32) -> u32;
    fn bcb(&self, f: Box<dyn Fn(u32) -> u32>) -> u32;
    fn fut(&self, x: u32) -> Pin<Box<dyn Future<Output = u32>>>;
    fn last(&self, a: u8, b: u16) -> u8;
});
rich!(rich_trailing_arg_added, {
    fn first(&self, x: u32) -> u32;
    fn noargs(&self) -> u32;
    fn cb(&self, f: &dyn Fn(u32) -> u32) -> u32;
    fn bcb(&self, f: Box<dyn Fn(u32) -> u32>) -> u32;
    fn fut(&self, x: u32) -> Pin<Box<dyn Future<Output = u32>>>;
    fn last(&self, a: u8, b: u16, c: u32) -> u8;
});
rich!(rich_trailing_arg_removed, {
    fn first(&self, x: u32) -> u32;
    fn noargs(&self) -> u32;
    fn cb(&self, f: &dyn Fn(u32) -> u32) -> u32;
    fn bcb(&self, f: Box<dyn Fn(u32) -> u32>) -> u32;
    fn fut(&self, x: u32) -> Pin<Box<dyn Future<Output = u32>>>;
    fn last(&self, a: u8) -> u8;
});
rich!(rich_last_arg_type, {
    fn first(&self, x: u32) -> u32;
    fn noargs(&self) -> u32;
    fn cb(&self, f: &dyn Fn(u32) -> u32) -> u32;
    fn bcb(&self, f: Box<dyn Fn(u32) -> u32>) -> u32;
    fn fut(&self, x: u32) -> Pin<Box<dyn Future<Output = u32>>>;
    fn last(&self, a: u8, b: u32) -> u8;
});
rich!(rich_last_ret_type, {
    fn first(&self, x: u32) -> u32;
    fn noargs(&self) -> u32;
    fn cb(&self, f: &dyn Fn(u32) -> u32) -> u32;
    fn bcb(&self, f: Box<dyn Fn(u32) -> u32>) -> u32;
    fn fut(&self, x: u32) -> Pin<Box<dyn Future<Output = u32>>>;
    fn last(&self, a: u8, b: u16) -> i8;
});
rich!(rich_noargs_ret_type, {
    fn first(&self, x: u32) -> u32;
    fn noargs(&self) -> u64;
    fn cb(&self, f: &dyn Fn(u32) -> u32) -> u32;
    fn bcb(&self, f: Box<dyn Fn(u32) -> u32>) -> u32;
    fn fut(&self, x: u32) -> Pin<Box<dyn Future<Output = u32>>>;
    fn last(&self, a: u8, b: u16) -> u8;
});
rich!(rich_last_removed, {
    fn first(&self, x: u32) -> u32;
    fn noargs(&self) -> u32;
    fn cb(&self, f: &dyn Fn(u32) -> u32) -> u32;
    fn bcb(&self, f: Box<dyn Fn(u32) -> u32>) -> u32;
    fn fut(&self, x: u32) -> Pin<Box<dyn Future<Output = u32>>>;
});
rich!(rich_first_removed, {
    fn noargs(&self) -> u32;
    fn cb(&self, f: &dyn Fn(u32) -> u32) -> u32;
    fn bcb(&self, f: Box<dyn Fn(u32) -> u32>) -> u32;
    fn fut(&self, x: u32) -> Pin<Box<dyn Future<Output = u32>>>;
    fn last(&self, a: u8, b: u16) -> u8;
});
rich!(rich_cb_ret, {
    fn first(&self, x: u32) -> u32;
    fn noargs(&self) -> u32;
    fn cb(&self, f: &dyn Fn(u32) -> String) -> u32;
    fn bcb(&self, f: Box<dyn Fn(u32) -> u32>) -> u32;
    fn fut(&self, x: u32) -> Pin<Box<dyn Future<Output = u32>>>;
    fn last(&self, a: u8, b: u16) -> u8;
});
rich!(rich_cb_arg, {
    fn first(&self, x: u32) -> u32;
    fn noargs(&self) -> u32;
    fn cb(&self, f: &dyn Fn(u64) -> u32) -> u32;
    fn bcb(&self, f: Box<dyn Fn(u32) -> u32>) -> u32;
    fn fut(&self, x: u32) -> Pin<Box<dyn Future<Output = u32>>>;
    fn last(&self, a: u8, b: u16) -> u8;
});
rich!(rich_bcb_ret, {
    fn first(&self, x: u32) -> u32;
    fn noargs(&self) -> u32;
    fn cb(&self, f: &dyn Fn(u32) -> u32) -> u32;
    fn bcb(&self, f: Box<dyn Fn(u32) -> String>) -> u32;
    fn fut(&self, x: u32) -> Pin<Box<dyn Future<Output = u32>>>;
    fn last(&self, a: u8, b: u16) -> u8;
});
rich!(rich_bcb_argcount, {
    fn first(&self, x: u32) -> u32;
    fn noargs(&self) -> u32;
    fn cb(&self, f: &dyn Fn(u32) -> u32) -> u32;
    fn bcb(&self, f: Box<dyn Fn(u32, u32) -> u32>) -> u32;
    fn fut(&self, x: u32) -> Pin<Box<dyn Future<Output = u32>>>;
    fn last(&self, a: u8, b: u16) -> u8;
});
rich!(rich_fut_out, {
    fn first(&self, x: u32) -> u32;
    fn noargs(&self) -> u32;
    fn cb(&self, f: &dyn Fn(u32) -> u32) -> u32;
    fn bcb(&self, f: Box<dyn Fn(u32) -> u32>) -> u32;
    fn fut(&self, x: u32) -> Pin<Box<dyn Future<Output = String>>>;
    fn last(&self, a: u8, b: u16) -> u8;
});
rich!(rich_ref_to_value, {
    fn first(&self, x: u32) -> u32;
    fn noargs(&self) -> u32;
    fn cb(&self, f: &dyn Fn(u32) -> u32) -> u32;
    fn bcb(&self, f: Box<dyn Fn(u32) -> u32>) -> u32;
    fn fut(&self, x: u32) -> Pin<Box<dyn Future<Output = u32>>>;
    fn last(&self, a: u8, b: Vec<u16>) -> u8;
});

pub mod receivers {
    use super::*;
    #[savefile_abi_exportable(version = 0)]
    pub trait Ledger: Send + Sync {
        fn a(&self, x: u32) -> u32;
        fn m(&mut self, x: u32) -> u32;
        fn p(self: std::pin::Pin<&mut Self>, x: u32) -> u32;
        fn cb(&self, f: &dyn Fn(u32) -> u32) -> u32;
        fn fut(&self, x: u32) -> std::pin::Pin<Box<dyn std::future::Future<Output = u32>>>;
    }
    pub fn verify(dir: &str) -> Result<(), String> {
        savefile_abi::verify_compatiblity::<dyn Ledger>(dir).map_err(|e| format!("{:?}", e))
    }
}
pub mod asynct {
    use super::*;
    #[async_trait::async_trait]
    #[savefile_abi_exportable(version = 0)]
    pub trait Ledger {
        async fn add(&mut self, x: u32, y: u32) -> u32;
        async fn name(&self) -> String;
    }
    pub fn verify(dir: &str) -> Result<(), String> {
        savefile_abi::verify_compatiblity::<dyn Ledger>(dir).map_err(|e| format!("{:?}", e))
    }
}

fn snapshot(dir: &str) -> BTreeMap<String, Vec<u8>> {
    let mut m = BTreeMap::new();
    if let Ok(rd) = std::fs::read_dir(dir) {
        for e in rd.flatten() {
            if let Ok(b) = std::fs::read(e.path()) {
                m.insert(e.file_name().to_string_lossy().to_string(), b);
            }
        }
    }
    m
}

struct Step {
    name: String,
    verify: Verify,
    /// Some(true) = must be accepted, Some(false) = must be rejected
    expect_ok: bool,
}

fn run_history(ctx: &mut Ctx, title: &str, steps: Vec<Step>, idx: usize) {
    let dir = format!("{}/va_ledger_{}_{}", std::env::var("VH_TMP").unwrap_or_else(|_| "/tmp".into()), std::process::id(), idx);
    let _ = std::fs::remove_dir_all(&dir);
    let mut trace: Vec<String> = vec![];
    for (si, st) in steps.iter().enumerate() {
        let before = snapshot(&dir);
        ctx.eval();
        let r = vcore::util::catch(|| (st.verify)(&dir));
        let after = snapshot(&dir);
        let outcome = match &r {
            Ok(Ok(())) => "Ok".to_string(),
            Ok(Err(e)) => {
                let mut e = e.clone();
                e.truncate(200);
                format!("Err({})", e)
            }
            Err(p) => format!("Panic({})", p),
        };
        trace.push(format!("{} -> {}", st.name, outcome));
        ctx.distinct(&format!("{}|{}|{}", title, si, st.name));
        let mk = |observed: String| J::obj(vec![("history", J::s(title)), ("step", J::i(si)), ("runs_so_far", J::Arr(trace.iter().map(|x| J::s(x.clone())).collect())), ("observed", J::s(observed)), ("files", J::Arr(after.keys().map(|k| J::s(k.clone())).collect()))]);
        match (&r, st.expect_ok) {
            (Err(p), _) => ctx.violation("C15:verify-panics", title, mk(format!("panic: {}", p))),
            (Ok(Ok(())), true) => ctx.count("compatible_revision_accepted"),
            (Ok(Err(e)), false) => {
                ctx.count("breaking_revision_rejected");
                let _ = e;
            }
            (Ok(Err(e)), true) => {
                let sig = if e.contains("async") { "C15:second-run-fails-for-async-trait" } else { "C15:compatible-revision-rejected" };
                ctx.violation(sig, title, mk(e.clone()));
            }
            (Ok(Ok(())), false) => ctx.violation("C15:breaking-revision-accepted", title, mk("verify_compatiblity returned Ok".into())),
        }
        // files recorded earlier are never rewritten
        for (k, v) in before.iter() {
            match after.get(k) {
                Some(v2) if v2 == v => {}
                Some(_) => ctx.violation("C15:recorded-file-overwritten", title, mk(format!("file {} changed", k))),
                None => ctx.violation("C15:recorded-file-removed", title, mk(format!("file {} disappeared", k))),
            }
        }
        if matches!(r, Ok(Ok(()))) && after.is_empty() {
            ctx.violation("C15:nothing-recorded", title, mk("successful run left no file in the directory".into()));
        }
        ctx.count("ledger_runs");
    }
    if idx % 7 == 0 {
        ctx.sample("history", J::obj(vec![("history", J::s(title)), ("runs", J::Arr(trace.iter().map(|x| J::s(x.clone())).collect()))]));
    }
    let _ = std::fs::remove_dir_all(&dir);
}

pub fn run(ctx: &mut Ctx) {
    let mut hidx = 0usize;
    let mut next = |ctx: &mut Ctx| -> Option<usize> {
        hidx += 1;
        if ctx.mine(hidx) {
            Some(hidx)
        } else {
            None
        }
    };
    let s = |name: &str, verify: Verify, ok: bool| Step { name: name.to_string(), verify, expect_ok: ok };
    // unchanged interface, run repeatedly (2-6 runs) from an empty directory
    let unchanged: Vec<(&str, Verify)> = vec![("base", base::verify), ("receivers", receivers::verify), ("async_trait", asynct::verify), ("plus_method", plus_method::verify)];
    for (name, v) in unchanged.iter() {
        for runs in [2usize, 3, 6] {
            if let Some(i) = next(ctx) {
                run_history(ctx, &format!("unchanged:{} x{}", name, runs), (0..runs).map(|k| s(&format!("{} run {}", name, k + 1), *v, true)).collect(), i);
            }
        }
    }
    // compatible then breaking steps
    let breaking: Vec<(&str, Verify)> =
        vec![("method removed", minus_method::verify), ("argument count changed", arg_count::verify), ("argument type changed", arg_type::verify), ("return type changed", ret_type::verify)];
    for (bname, bv) in breaking.iter() {
        if let Some(i) = next(ctx) {
            run_history(ctx, &format!("base then {}", bname), vec![s("base", base::verify, true), s(bname, *bv, false), s("base again", base::verify, true)], i);
        }
        if let Some(i) = next(ctx) {
            run_history(
                ctx,
                &format!("base, +method, then {}", bname),
                vec![s("base", base::verify, true), s("method added", plus_method::verify, true), s("base again", base::verify, true), s(bname, *bv, false), s(bname, *bv, false)],
                i,
            );
        }
    }
    // the richer base: one breaking variant per kind of change and position
    let rich_breaking: Vec<(&str, Verify)> = vec![
        ("method without arguments gains one", rich_noargs_gains_arg::verify),
        ("trailing argument added", rich_trailing_arg_added::verify),
        ("trailing argument removed", rich_trailing_arg_removed::verify),
        ("type of last argument changed", rich_last_arg_type::verify),
        ("return type of last method changed", rich_last_ret_type::verify),
        ("return type of method without arguments changed", rich_noargs_ret_type::verify),
        ("last method removed", rich_last_removed::verify),
        ("first method removed", rich_first_removed::verify),
        ("return type of closure argument changed", rich_cb_ret::verify),
        ("argument type of closure argument changed", rich_cb_arg::verify),
        ("return type of boxed closure argument changed", rich_bcb_ret::verify),
        ("argument count of boxed closure argument changed", rich_bcb_argcount::verify),
        ("output type of returned future changed", rich_fut_out::verify),
        ("last argument changed from u16 to Vec<u16>", rich_ref_to_value::verify),
    ];
    for (bname, bv) in rich_breaking.iter() {
        if let Some(i) = next(ctx) {
            run_history(ctx, &format!("rich base then {}", bname), vec![s("rich base", rich_base::verify, true), s("rich base again", rich_base::verify, true), s(bname, *bv, false), s("rich base once more", rich_base::verify, true)], i);
        }
        if let Some(i) = next(ctx) {
            // the breaking change is relative to an older recorded state: a compatible revision was recorded in between
            run_history(ctx, &format!("rich base, +method, then {}", bname), vec![s("rich base", rich_base::verify, true), s("method added", rich_plus::verify, true), s(bname, *bv, false)], i);
        }
    }
    if let Some(i) = next(ctx) {
        run_history(ctx, "methods reordered", vec![s("base", base::verify, true), s("reordered", reordered::verify, true), s("base", base::verify, true)], i);
    }
    // generated interface families: successive versions with evolved argument / return types
    let mut ledgers = crate::fam_gen::ledgers();
    #[cfg(feature = "extra_zoo")]
    ledgers.extend(crate::fam_gen_extra::ledgers());
    let mut by_family: BTreeMap<&'static str, Vec<&crate::c10::LedgerEntry>> = BTreeMap::new();
    for l in ledgers.iter() {
        by_family.entry(l.family).or_default().push(l);
    }
    for (fam, revs) in by_family.iter() {
        // every revision once, in order
        if let Some(i) = next(ctx) {
            run_history(ctx, &format!("family {}: versions in order", fam), revs.iter().map(|l| s(&format!("v{}", l.version), l.verify, true)).collect(), i);
        }
        // every revision twice, then the newest against a directory that has seen them all, then older ones again
        if let Some(i) = next(ctx) {
            let mut steps: Vec<Step> = vec![];
            for l in revs.iter() {
                steps.push(s(&format!("v{}", l.version), l.verify, true));
                steps.push(s(&format!("v{} again", l.version), l.verify, true));
            }
            for l in revs.iter().rev() {
                steps.push(s(&format!("older v{} after newer", l.version), l.verify, true));
            }
            run_history(ctx, &format!("family {}: repeated and revisited", fam), steps, i);
        }
        // the newest revision against an empty directory, repeated (all recorded files must describe their own version)
        if let (Some(i), Some(last)) = (next(ctx), revs.last()) {
            run_history(ctx, &format!("family {}: newest from empty directory, repeated", fam), (0..3).map(|k| s(&format!("v{} run {}", last.version, k + 1), last.verify, true)).collect(), i);
        }
        // version gap: the directory was last populated two revisions earlier
        if revs.len() >= 3 {
            if let Some(i) = next(ctx) {
                let mut steps: Vec<Step> = vec![];
                for l in revs.iter().step_by(2) {
                    steps.push(s(&format!("v{}", l.version), l.verify, true));
                    steps.push(s(&format!("v{} again", l.version), l.verify, true));
                }
                for l in revs.iter() {
                    steps.push(s(&format!("v{} afterwards", l.version), l.verify, true));
                }
                run_history(ctx, &format!("family {}: every other version", fam), steps, i);
            }
        }
        // start directly at the newest revision (empty directory), then older revisions
        if let Some(i) = next(ctx) {
            let mut steps: Vec<Step> = vec![];
            if let Some(last) = revs.last() {
                steps.push(s(&format!("v{} first", last.version), last.verify, true));
            }
            for l in revs.iter() {
                steps.push(s(&format!("v{}", l.version), l.verify, true));
            }
            run_history(ctx, &format!("family {}: newest first", fam), steps, i);
        }
    }
}
