//! C11 By-reference argument passing only between provably identical layouts.
//!
//! (a) observation: a plugin compiled separately (nightly, -Zrandomize-layout with several
//!     seeds) is loaded into this stable-built host; every argument the plugin observes must
//!     equal what the host passed, and an argument reported as passable by reference must have
//!     identical layout facts on both sides.
//! (b) decision: Schema::layout_compatible must answer false for every pair of descriptions
//!     that differ in exactly one layout fact (or where a fact is unknown).

#[path = "../../../plugin/shared/ptypes.rs"]
pub mod ptypes;
use ptypes::*;
use savefile_abi::AbiConnection;
use vcore::util::{Rng, J};
use vh::checks::c13::{to_schema, SF, ST, SV};
use vh::ctx::Ctx;

fn gen_a(r: &mut Rng) -> A {
    A { a: r.next_u64() as u8, b: r.next_u64() as u32, c: r.next_u64() as u16, d: r.next_u64() }
}
fn gen_s(r: &mut Rng) -> String {
    let l = *r.pick(&[0usize, 1, 5, 22, 23, 24, 60, 200]);
    (0..l).map(|i| (b'a' + ((i as u8).wrapping_add(r.next_u64() as u8) % 26)) as char).collect()
}
fn gen_b(r: &mut Rng) -> B {
    B { s: gen_s(r), x: r.next_u64() as u32, v: (0..r.below(9)).map(|_| r.next_u64() as u16).collect(), y: r.next_u64() as u8 }
}
fn gen_p(r: &mut Rng) -> P {
    P { x: r.next_u64() as u32, y: r.next_u64() as u32 }
}

pub fn observe_plugin(ctx: &mut Ctx, path: &str) {
    let label = std::path::Path::new(path).parent().and_then(|p| p.parent()).and_then(|p| p.file_name()).map(|x| x.to_string_lossy().to_string()).unwrap_or_else(|| path.to_string());
    let conn = match vcore::util::catch(|| AbiConnection::<dyn Probe>::load_shared_library(path)) {
        Ok(Ok(c)) => c,
        other => {
            ctx.inconclusive(format!("could not load plugin {}: {:?}", path, other.map(|x| x.map(|_| "conn"))));
            return;
        }
    };
    ctx.count("plugins_loaded");
    let compiler = conn.compiler();
    ctx.note(format!("plugin {}: {}", label, compiler));
    let host = layout_facts();
    let plug = conn.layout();
    let differs = |name: &str| -> bool {
        let a = host.iter().find(|x| x.0 == name).map(|x| x.1.clone());
        let b = plug.iter().find(|x| x.0 == name).map(|x| x.1.clone());
        a != b
    };
    for (n, _) in host.iter() {
        if differs(n) {
            ctx.count("types_with_different_layout_in_plugin");
        } else {
            ctx.count("types_with_same_layout_in_plugin");
        }
    }
    // which layout facts matter for which argument
    let args: Vec<(&str, usize, Vec<&str>)> = vec![
        ("see_a", 0, vec!["A"]),
        ("see_b", 0, vec!["B", "Vec", "String"]),
        ("see_c", 0, vec!["C"]),
        ("see_d", 0, vec!["D", "A", "B", "C", "Vec", "String"]),
        ("see_e", 0, vec!["E"]),
        ("see_p", 0, vec!["P"]),
        ("see_g", 0, vec!["G", "A", "tuple"]),
        ("see_v", 0, vec!["V", "A", "P", "Vec", "String"]),
        ("see_vec_a", 0, vec!["A", "Vec"]),
        ("see_vec_p", 0, vec!["P", "Vec"]),
        ("see_slice_a", 0, vec!["A"]),
        ("see_slice_p", 0, vec!["P"]),
        ("see_slice_u32", 0, vec![]),
        ("see_string", 0, vec!["String"]),
        ("see_tuple", 0, vec!["tuple"]),
        ("see_u64", 0, vec![]),
        ("see_many", 0, vec!["A"]),
        ("see_many", 1, vec!["P"]),
        ("see_many", 2, vec!["B", "Vec", "String"]),
    ];
    for (m, i, deps) in args.iter() {
        ctx.eval();
        let by_ref = conn.get_arg_passable_by_ref(m, *i);
        let layout_differs = deps.iter().any(|d| differs(d));
        ctx.count(if by_ref { "arguments_passed_by_reference" } else { "arguments_serialized" });
        ctx.distinct(&format!("{}|{}#{}|byref={}|layoutdiffers={}", label, m, i, by_ref, layout_differs));
        if by_ref && layout_differs {
            ctx.violation(
                "C11:by-reference-although-layouts-differ",
                &format!("{}:{}#{}", label, m, i),
                J::obj(vec![("plugin", J::s(compiler.clone())), ("method", J::s(*m)), ("argument", J::i(*i)), ("host_layout", J::s(format!("{:?}", host))), ("plugin_layout", J::s(format!("{:?}", plug)))]),
            );
        }
    }
    // values observed by the plugin
    let mut r = Rng::derive(ctx.seed, &format!("c11/{}", label));
    let n = ctx.t(60, 600);
    let mut cmp = |ctx: &mut Ctx, method: &str, host_view: String, plugin_view: Result<String, String>| {
        ctx.eval();
        match plugin_view {
            Ok(p) if p == host_view => ctx.count("observed_equal"),
            Ok(p) => ctx.violation(
                "C11:plugin-observed-different-value",
                &format!("{}:{}", label, method),
                J::obj(vec![("plugin", J::s(compiler.clone())), ("method", J::s(method)), ("host_passed", J::s(trunc(&host_view))), ("plugin_observed", J::s(trunc(&p)))]),
            ),
            Err(e) => ctx.violation("C11:call-panicked", &format!("{}:{}", label, method), J::obj(vec![("plugin", J::s(compiler.clone())), ("method", J::s(method)), ("observed", J::s(e))])),
        }
    };
    for _ in 0..n {
        let a = gen_a(&mut r);
        cmp(ctx, "see_a", format!("{:?}", a), vcore::util::catch(std::panic::AssertUnwindSafe(|| conn.see_a(&a))));
        let b = gen_b(&mut r);
        cmp(ctx, "see_b", format!("{:?}", b), vcore::util::catch(std::panic::AssertUnwindSafe(|| conn.see_b(&b))));
        let c = C(r.next_u64() as u8, r.next_u64(), r.next_u64() as u8, r.next_u64() as u32);
        cmp(ctx, "see_c", format!("{:?}", c), vcore::util::catch(std::panic::AssertUnwindSafe(|| conn.see_c(&c))));
        let d = D { a: gen_a(&mut r), k: r.next_u64() as u16, b: gen_b(&mut r), c: c.clone() };
        cmp(ctx, "see_d", format!("{:?}", d), vcore::util::catch(std::panic::AssertUnwindSafe(|| conn.see_d(&d))));
        let e = match r.below(3) {
            0 => E::X(r.next_u64() as u8, r.next_u64() as u32),
            1 => E::Y { p: r.next_u64() as u16, q: r.next_u64() as u16 },
            _ => E::Z,
        };
        cmp(ctx, "see_e", format!("{:?}", e), vcore::util::catch(std::panic::AssertUnwindSafe(|| conn.see_e(&e))));
        let p = gen_p(&mut r);
        cmp(ctx, "see_p", format!("{:?}", p), vcore::util::catch(std::panic::AssertUnwindSafe(|| conn.see_p(&p))));
        let g = G { arr: [gen_a(&mut r), gen_a(&mut r)], t: (r.next_u64() as u8, r.next_u64() as u32, r.next_u64() as u16), o: if r.chance(1, 2) { Some(r.next_u64() as u32) } else { None }, f: r.chance(1, 2) };
        cmp(ctx, "see_g", format!("{:?}", g), vcore::util::catch(std::panic::AssertUnwindSafe(|| conn.see_g(&g))));
        let v = V { items: (0..r.below(5)).map(|_| gen_a(&mut r)).collect(), names: (0..r.below(4)).map(|_| gen_s(&mut r)).collect(), ps: (0..r.below(6)).map(|_| gen_p(&mut r)).collect() };
        cmp(ctx, "see_v", format!("{:?}", v), vcore::util::catch(std::panic::AssertUnwindSafe(|| conn.see_v(&v))));
        cmp(ctx, "see_vec_a", format!("{:?}", v.items), vcore::util::catch(std::panic::AssertUnwindSafe(|| conn.see_vec_a(&v.items))));
        cmp(ctx, "see_vec_p", format!("{:?}", v.ps), vcore::util::catch(std::panic::AssertUnwindSafe(|| conn.see_vec_p(&v.ps))));
        cmp(ctx, "see_slice_a", format!("{:?}", &v.items[..]), vcore::util::catch(std::panic::AssertUnwindSafe(|| conn.see_slice_a(&v.items))));
        cmp(ctx, "see_slice_p", format!("{:?}", &v.ps[..]), vcore::util::catch(std::panic::AssertUnwindSafe(|| conn.see_slice_p(&v.ps))));
        let us: Vec<u32> = (0..r.below(20)).map(|_| r.next_u64() as u32).collect();
        cmp(ctx, "see_slice_u32", format!("{:?}", &us[..]), vcore::util::catch(std::panic::AssertUnwindSafe(|| conn.see_slice_u32(&us))));
        let s = gen_s(&mut r);
        cmp(ctx, "see_str", format!("{:?}", s.as_str()), vcore::util::catch(std::panic::AssertUnwindSafe(|| conn.see_str(&s))));
        cmp(ctx, "see_string", format!("{:?}", s), vcore::util::catch(std::panic::AssertUnwindSafe(|| conn.see_string(&s))));
        cmp(ctx, "see_tuple", format!("{:?}", g.t), vcore::util::catch(std::panic::AssertUnwindSafe(|| conn.see_tuple(&g.t))));
        let u = r.next_u64();
        cmp(ctx, "see_u64", format!("{:?}", u), vcore::util::catch(std::panic::AssertUnwindSafe(|| conn.see_u64(&u))));
        let nn = r.next_u64() as u32;
        cmp(ctx, "see_many", format!("{:?} {:?} {:?} {} {:?}", a, p, b, nn, s.as_str()), vcore::util::catch(std::panic::AssertUnwindSafe(|| conn.see_many(&a, &p, &b, nn, &s))));
        cmp(ctx, "by_value", format!("{:?} {:?} {:?}", a, b, e), vcore::util::catch(std::panic::AssertUnwindSafe(|| conn.by_value(a.clone(), b.clone(), e.clone()))));
        let seed = r.next_u64() as u32;
        cmp(ctx, "make_d", format!("{:?}", make_d(seed)), vcore::util::catch(std::panic::AssertUnwindSafe(|| format!("{:?}", conn.make_d(seed)))));
    }
    ctx.sample(
        "plugin",
        J::obj(vec![("plugin", J::s(compiler)), ("host_layout", J::s(format!("{:?}", host))), ("plugin_layout", J::s(format!("{:?}", plug)))]),
    );
}

fn trunc(s: &str) -> String {
    let mut t = s.to_string();
    if t.len() > 500 {
        t.truncate(500);
    }
    t
}

// ---- (b) decision ---------------------------------------------------------------------------------

/// random description in which every layout fact is known
fn known_tree(r: &mut Rng, depth: u32) -> ST {
    if depth > 3 || r.chance(1, 3) {
        return match r.below(5) {
            0 => ST::Str(1 + r.below(8) as u8),
            1 => ST::Zero,
            _ => ST::Prim(*r.pick(&[1u8, 2, 3, 4, 5, 6, 7, 8, 10, 11, 12, 14, 15, 16])),
        };
    }
    let fields = |r: &mut Rng, depth: u32| -> Vec<SF> { (0..1 + r.below(3)).map(|i| SF { name: format!("f{}", i), value: known_tree(r, depth + 1), offset: Some(i * 8 + r.below(3)) }).collect() };
    match r.below(8) {
        0 | 1 | 2 => ST::Struct { name: "S".into(), size: Some(8 + r.below(40)), align: Some(*r.pick(&[1usize, 2, 4, 8])), fields: fields(r, depth) },
        3 => ST::Enum {
            name: "E".into(),
            variants: (0..1 + r.below(3)).map(|i| SV { name: format!("V{}", i), discr: i as u8, fields: if r.chance(1, 2) { fields(r, depth) } else { vec![] } }).collect(),
            dsize: *r.pick(&[1u8, 2, 4]),
            explicit: true,
            size: Some(4 + r.below(30)),
            align: Some(*r.pick(&[1usize, 2, 4])),
        },
        4 => ST::Vector(Box::new(known_tree(r, depth + 1)), 1 + r.below(8) as u8),
        5 => ST::Array(Box::new(known_tree(r, depth + 1)), r.below(5)),
        6 => ST::Boxed(Box::new(known_tree(r, depth + 1))),
        _ => {
            if r.chance(1, 2) {
                ST::Reference(Box::new(known_tree(r, depth + 1)))
            } else {
                ST::Slice(Box::new(known_tree(r, depth + 1)))
            }
        }
    }
}

/// every single-fact change of the description (at every node)
fn layout_mutations(s: &ST) -> Vec<(String, ST)> {
    let mut out: Vec<(String, ST)> = vec![];
    match s {
        ST::Prim(t) => out.push(("primitive kind".into(), ST::Prim(if *t == 6 { 5 } else { 6 }))),
        ST::Str(l) => {
            out.push(("string layout unknown".into(), ST::Str(0)));
            out.push(("string layout different".into(), ST::Str(if *l == 1 { 2 } else { 1 })));
        }
        ST::Struct { name, size, align, fields } => {
            let mk = |size: Option<usize>, align: Option<usize>, fields: Vec<SF>| ST::Struct { name: name.clone(), size, align, fields };
            out.push(("struct size".into(), mk(size.map(|x| x + 1), *align, fields.clone())));
            out.push(("struct size unknown".into(), mk(None, *align, fields.clone())));
            out.push(("struct alignment".into(), mk(*size, align.map(|x| x * 2), fields.clone())));
            out.push(("struct alignment unknown".into(), mk(*size, None, fields.clone())));
            let mut f = fields.clone();
            f.push(SF { name: "extra".into(), value: ST::Prim(2), offset: Some(100) });
            out.push(("field count +1".into(), mk(*size, *align, f)));
            if fields.len() > 1 {
                let mut f = fields.clone();
                f.pop();
                out.push(("field count -1".into(), mk(*size, *align, f)));
            }
            for i in 0..fields.len() {
                let mut f = fields.clone();
                f[i].offset = f[i].offset.map(|x| x + 1);
                out.push((format!("field {} offset", i), mk(*size, *align, f)));
                let mut f = fields.clone();
                f[i].offset = None;
                out.push((format!("field {} offset unknown", i), mk(*size, *align, f)));
                for (d, m) in layout_mutations(&fields[i].value) {
                    let mut f = fields.clone();
                    f[i].value = m;
                    out.push((format!("field {}: {}", i, d), mk(*size, *align, f)));
                }
            }
        }
        ST::Enum { name, variants, dsize, explicit, size, align } => {
            let mk = |variants: Vec<SV>, dsize: u8, explicit: bool, size: Option<usize>, align: Option<usize>| ST::Enum { name: name.clone(), variants, dsize, explicit, size, align };
            out.push(("enum without explicit repr".into(), mk(variants.clone(), *dsize, false, *size, *align)));
            out.push(("enum size".into(), mk(variants.clone(), *dsize, *explicit, size.map(|x| x + 1), *align)));
            out.push(("enum size unknown".into(), mk(variants.clone(), *dsize, *explicit, None, *align)));
            out.push(("enum alignment".into(), mk(variants.clone(), *dsize, *explicit, *size, align.map(|x| x * 2))));
            out.push(("enum alignment unknown".into(), mk(variants.clone(), *dsize, *explicit, *size, None)));
            out.push(("discriminant width".into(), mk(variants.clone(), if *dsize == 1 { 2 } else { 1 }, *explicit, *size, *align)));
            let mut v = variants.clone();
            v.push(SV { name: "Extra".into(), discr: 99, fields: vec![] });
            out.push(("variant count +1".into(), mk(v, *dsize, *explicit, *size, *align)));
            for vi in 0..variants.len() {
                let mut v = variants.clone();
                v[vi].discr = v[vi].discr.wrapping_add(1);
                out.push((format!("variant {} discriminant value", vi), mk(v, *dsize, *explicit, *size, *align)));
                let mut v = variants.clone();
                v[vi].fields.push(SF { name: "extra".into(), value: ST::Prim(2), offset: Some(50) });
                out.push((format!("variant {} field count", vi), mk(v, *dsize, *explicit, *size, *align)));
                for fi in 0..variants[vi].fields.len() {
                    let mut v = variants.clone();
                    v[vi].fields[fi].offset = v[vi].fields[fi].offset.map(|x| x + 1);
                    out.push((format!("variant {} field {} offset", vi, fi), mk(v, *dsize, *explicit, *size, *align)));
                    let mut v = variants.clone();
                    v[vi].fields[fi].offset = None;
                    out.push((format!("variant {} field {} offset unknown", vi, fi), mk(v, *dsize, *explicit, *size, *align)));
                    for (d, m) in layout_mutations(&variants[vi].fields[fi].value) {
                        let mut v = variants.clone();
                        v[vi].fields[fi].value = m;
                        out.push((format!("variant {} field {}: {}", vi, fi, d), mk(v, *dsize, *explicit, *size, *align)));
                    }
                }
            }
        }
        ST::Vector(i, l) => {
            out.push(("vector layout unknown".into(), ST::Vector(i.clone(), 0)));
            out.push(("vector layout different".into(), ST::Vector(i.clone(), if *l == 1 { 2 } else { 1 })));
            out.extend(layout_mutations(i).into_iter().map(|(d, m)| (format!("element: {}", d), ST::Vector(Box::new(m), *l))));
        }
        ST::Array(i, n) => {
            out.push(("array length".into(), ST::Array(i.clone(), n + 1)));
            out.extend(layout_mutations(i).into_iter().map(|(d, m)| (format!("element: {}", d), ST::Array(Box::new(m), *n))));
        }
        ST::Boxed(i) => out.extend(layout_mutations(i).into_iter().map(|(d, m)| (format!("boxed: {}", d), ST::Boxed(Box::new(m))))),
        ST::Reference(i) => out.extend(layout_mutations(i).into_iter().map(|(d, m)| (format!("referenced: {}", d), ST::Reference(Box::new(m))))),
        ST::Slice(i) => out.extend(layout_mutations(i).into_iter().map(|(d, m)| (format!("slice element: {}", d), ST::Slice(Box::new(m))))),
        _ => {}
    }
    out
}

fn contains_zero_len_array(s: &ST) -> bool {
    match s {
        ST::Array(i, n) => *n == 0 || contains_zero_len_array(i),
        ST::Struct { fields, .. } => fields.iter().any(|f| contains_zero_len_array(&f.value)),
        ST::Enum { variants, .. } => variants.iter().any(|v| v.fields.iter().any(|f| contains_zero_len_array(&f.value))),
        ST::Vector(i, _) | ST::Boxed(i) | ST::Reference(i) | ST::Slice(i) => contains_zero_len_array(i),
        _ => false,
    }
}

pub fn decision(ctx: &mut Ctx) {
    let mut r = Rng::derive(ctx.seed, &format!("c11/decision/{}", ctx.shard));
    let n = ctx.t(400, 8000) / ctx.nshards.max(1);
    for _ in 0..n {
        let t = known_tree(&mut r, 0);
        let s = to_schema(&t, true);
        ctx.eval();
        if !s.layout_compatible(&s) {
            ctx.count("base_descriptions_not_self_compatible");
            continue;
        }
        ctx.count("base_descriptions");
        ctx.distinct(&format!("{:?}", s));
        for (what, m) in layout_mutations(&t) {
            // a changed fact below a zero-length array has no influence on the layout; skip those
            if contains_zero_len_array(&t) {
                continue;
            }
            let ms = to_schema(&m, true);
            ctx.eval();
            ctx.count("single_fact_changes");
            let fwd = s.layout_compatible(&ms);
            let bwd = ms.layout_compatible(&s);
            if fwd || bwd {
                let kind: String = what.rsplit(": ").next().unwrap_or(&what).to_string();
                ctx.violation(
                    &format!("C11:compatible-despite-different:{}", kind.replace(' ', "-")),
                    "layout_compatible",
                    J::obj(vec![("changed_fact", J::s(what.clone())), ("description", J::s(trunc(&format!("{:?}", t)))), ("changed_description", J::s(trunc(&format!("{:?}", m)))), ("a_vs_b", J::Bool(fwd)), ("b_vs_a", J::Bool(bwd))]),
                );
            } else {
                ctx.count("difference_detected");
            }
        }
    }
}

pub fn run(ctx: &mut Ctx) {
    decision(ctx);
    let plugins: Vec<String> = std::env::var("VA_PLUGINS").unwrap_or_default().split(',').filter(|x| !x.is_empty()).map(|x| x.to_string()).collect();
    if plugins.is_empty() {
        ctx.inconclusive("no plugin library given (VA_PLUGINS)");
    }
    let child = vutil::isolate::child_item();
    for (i, p) in plugins.iter().enumerate() {
        match child {
            Some(it) => {
                if it == i {
                    observe_plugin(ctx, p);
                }
            }
            None => {
                if ctx.mine(i) {
                    // a wrong by-reference decision typically ends in a crash: one child per plugin
                    vutil::isolate::run_child(ctx, "C11", i, p, 300, "C11:process-died-calling-plugin");
                }
            }
        }
    }
}
