pub mod c09;
pub mod c10;
pub mod c15;
pub mod events;
pub mod fam_gen;
#[cfg(feature = "extra_zoo")]
pub mod fam_gen_extra;
pub use vutil::isolate;
