//! Append-only, lock-protected event log: object creation / drop with unique ids,
//! argument records of implementations, hook events. Checked offline after a scenario.

use std::sync::atomic::{AtomicU64, Ordering};
use std::sync::Mutex;

#[derive(Clone, Debug, PartialEq)]
pub enum Event {
    Created(u64, &'static str),
    Dropped(u64),
    /// (instance id, method, rendered arguments)
    Call(u64, &'static str, String),
    Hook(&'static str, u64, u64, u64),
}

static LOG: Mutex<Vec<Event>> = Mutex::new(Vec::new());
static NEXT_ID: AtomicU64 = AtomicU64::new(1);

pub fn push(e: Event) {
    // never panic while logging (a poisoned lock must not turn into a second failure)
    match LOG.lock() {
        Ok(mut g) => g.push(e),
        Err(p) => p.into_inner().push(e),
    }
}
pub fn take() -> Vec<Event> {
    match LOG.lock() {
        Ok(mut g) => std::mem::take(&mut *g),
        Err(p) => std::mem::take(&mut *p.into_inner()),
    }
}
pub fn snapshot_len() -> usize {
    LOG.lock().map(|g| g.len()).unwrap_or(0)
}

/// An object whose creation and destruction are logged with a unique id.
#[derive(Debug)]
pub struct Tracked {
    pub id: u64,
}
impl Tracked {
    pub fn new(kind: &'static str) -> Tracked {
        let id = NEXT_ID.fetch_add(1, Ordering::SeqCst);
        push(Event::Created(id, kind));
        Tracked { id }
    }
}
impl Drop for Tracked {
    fn drop(&mut self) {
        push(Event::Dropped(self.id));
    }
}

/// Offline check: every created id was dropped exactly once, and nothing was used after its drop.
pub fn check_lifetimes(events: &[Event]) -> Vec<String> {
    use std::collections::HashMap;
    let mut created: HashMap<u64, &'static str> = HashMap::new();
    let mut drops: HashMap<u64, u32> = HashMap::new();
    let mut problems = vec![];
    for e in events {
        match e {
            Event::Created(id, k) => {
                created.insert(*id, k);
            }
            Event::Dropped(id) => {
                *drops.entry(*id).or_insert(0) += 1;
            }
            Event::Call(id, m, _) => {
                if drops.get(id).copied().unwrap_or(0) > 0 {
                    problems.push(format!("object {} ({}) used by {} after it was dropped", id, created.get(id).copied().unwrap_or("?"), m));
                }
            }
            _ => {}
        }
    }
    for (id, k) in created.iter() {
        match drops.get(id).copied().unwrap_or(0) {
            1 => {}
            0 => problems.push(format!("object {} ({}) was never dropped", id, k)),
            n => problems.push(format!("object {} ({}) was dropped {} times", id, k, n)),
        }
    }
    for (id, n) in drops.iter() {
        if !created.contains_key(id) {
            problems.push(format!("unknown object {} dropped {} times", id, n));
        }
    }
    problems.sort();
    problems
}
