//! C09 ABI calls are transparent: the same scripted scenario is run against the
//! implementation directly and through an AbiConnection; results, the arguments
//! the implementation recorded, object lifetimes and panic messages must agree.

use crate::events::{self, Event, Tracked};
use savefile_abi::AbiConnection;
use savefile_derive::{savefile_abi_exportable, Savefile};
use std::future::Future;
use std::pin::Pin;
use vcore::util::{Rng, J};
use vh::ctx::Ctx;

#[derive(Savefile, Debug, Clone, PartialEq)]
#[repr(C)]
pub struct Pos {
    pub x: u32,
    pub y: u32,
}
#[derive(Savefile, Debug, Clone, PartialEq)]
pub struct Player {
    pub name: String,
    pub hp: u16,
    pub tags: Vec<String>,
    pub pos: Pos,
}
#[derive(Savefile, Debug, Clone, PartialEq)]
pub enum Cmd {
    Nop,
    Move(i32, i32),
    Say { text: String },
}

#[savefile_abi_exportable(version = 0)]
pub trait Counter {
    fn get(&self) -> u32;
    fn inc(&mut self, by: u32) -> u32;
}

#[savefile_abi_exportable(version = 0)]
pub trait Plain {
    fn add(&self, a: u32, b: u32) -> u32;
    fn echo_string(&self, s: String) -> String;
    fn echo_str(&self, s: &str) -> String;
    fn echo_bytes(&self, v: Vec<u8>) -> Vec<u8>;
    fn sum_slice(&self, s: &[u32]) -> u64;
    fn slice_of_strings(&self, s: &[String]) -> usize;
    fn pos_by_ref(&self, p: &Pos) -> Pos;
    fn player_by_ref(&self, p: &Player) -> Player;
    fn player_by_val(&self, p: Player) -> Player;
    fn cmd(&self, c: Cmd) -> Cmd;
    fn tuple3(&self, t: (u8, u16, u32)) -> (u32, u16, u8);
    fn opt(&self, o: Option<String>) -> Option<u32>;
    fn res(&self, x: u32) -> Result<String, String>;
    fn noargs(&self) -> u64;
    fn set(&mut self, x: u64);
    fn get(&self) -> u64;
    fn static_str(&self, i: u8) -> &'static str;
    fn mixed(&self, a: u8, s: &str, p: &Pos, v: &[u8], b: bool, pl: &Player, x: u128) -> String;
    fn call_fn(&self, f: &dyn Fn(u32) -> u32, x: u32) -> u32;
    fn call_fnmut(&self, f: &mut dyn FnMut(String) -> usize, n: u32) -> usize;
    fn call_boxed_fn(&self, f: Box<dyn Fn(u32) -> u32>, x: u32) -> u32;
    fn keep_boxed_fn(&mut self, f: Box<dyn Fn(u32) -> u32 + Send + Sync>);
    fn call_kept(&self, x: u32) -> u32;
    fn make_closure(&self, k: u32) -> Box<dyn Fn(u32) -> u32>;
    fn make_counter(&self, start: u32) -> Box<dyn Counter>;
    fn use_counter(&self, c: Box<dyn Counter>) -> u32;
    fn borrow_counter(&self, c: &dyn Counter) -> u32;
    fn try_counter(&self, ok: bool) -> Result<Box<dyn Counter>, String>;
    fn fut(&self, x: u32) -> Pin<Box<dyn Future<Output = u32>>>;
    fn nested_callbacks(&mut self, x: &mut dyn FnMut(&dyn Fn(&dyn Fn() -> u32) -> u32) -> u32) -> u32;
    fn pinned(self: Pin<&mut Self>, arg: u32) -> u32;
    fn panic_literal(&self);
    fn panic_formatted(&self, x: u32);
    fn panic_string(&self, s: String);
    fn panic_any_value(&self);
    fn panic_in_callback(&self, f: &dyn Fn(u32) -> u32) -> u32;
}

pub struct CounterImpl {
    v: u32,
    t: Tracked,
}
impl Counter for CounterImpl {
    fn get(&self) -> u32 {
        events::push(Event::Call(self.t.id, "Counter::get", String::new()));
        self.v
    }
    fn inc(&mut self, by: u32) -> u32 {
        events::push(Event::Call(self.t.id, "Counter::inc", format!("{}", by)));
        self.v = self.v.wrapping_add(by);
        self.v
    }
}
pub fn new_counter(start: u32) -> CounterImpl {
    CounterImpl { v: start, t: Tracked::new("counter") }
}

pub struct PlainImpl {
    state: u64,
    kept: Option<Box<dyn Fn(u32) -> u32 + Send + Sync>>,
    t: Tracked,
    /// arguments as the implementation saw them (compared between the direct and the ABI run)
    pub seen: std::sync::Arc<std::sync::Mutex<Vec<String>>>,
}
impl PlainImpl {
    pub fn new(seen: std::sync::Arc<std::sync::Mutex<Vec<String>>>) -> PlainImpl {
        PlainImpl { state: 0, kept: None, t: Tracked::new("plain-impl"), seen }
    }
    fn rec(&self, m: &'static str, args: String) {
        events::push(Event::Call(self.t.id, m, String::new()));
        self.seen.lock().unwrap_or_else(|p| p.into_inner()).push(format!("{}({})", m, args));
    }
}
impl Plain for PlainImpl {
    fn add(&self, a: u32, b: u32) -> u32 {
        self.rec("add", format!("{},{}", a, b));
        a.wrapping_add(b)
    }
    fn echo_string(&self, s: String) -> String {
        self.rec("echo_string", format!("{:?}", s));
        s
    }
    fn echo_str(&self, s: &str) -> String {
        self.rec("echo_str", format!("{:?}", s));
        s.to_string()
    }
    fn echo_bytes(&self, v: Vec<u8>) -> Vec<u8> {
        self.rec("echo_bytes", format!("{:?}", v));
        v
    }
    fn sum_slice(&self, s: &[u32]) -> u64 {
        self.rec("sum_slice", format!("{:?}", s));
        s.iter().map(|x| *x as u64).sum()
    }
    fn slice_of_strings(&self, s: &[String]) -> usize {
        self.rec("slice_of_strings", format!("{:?}", s));
        s.iter().map(|x| x.len()).sum()
    }
    fn pos_by_ref(&self, p: &Pos) -> Pos {
        self.rec("pos_by_ref", format!("{:?}", p));
        Pos { x: p.y, y: p.x }
    }
    fn player_by_ref(&self, p: &Player) -> Player {
        self.rec("player_by_ref", format!("{:?}", p));
        let mut q = p.clone();
        q.hp = q.hp.wrapping_add(1);
        q
    }
    fn player_by_val(&self, p: Player) -> Player {
        self.rec("player_by_val", format!("{:?}", p));
        p
    }
    fn cmd(&self, c: Cmd) -> Cmd {
        self.rec("cmd", format!("{:?}", c));
        match c {
            Cmd::Nop => Cmd::Say { text: "nop".into() },
            Cmd::Move(a, b) => Cmd::Move(b, a),
            Cmd::Say { .. } => Cmd::Nop,
        }
    }
    fn tuple3(&self, t: (u8, u16, u32)) -> (u32, u16, u8) {
        self.rec("tuple3", format!("{:?}", t));
        (t.2, t.1, t.0)
    }
    fn opt(&self, o: Option<String>) -> Option<u32> {
        self.rec("opt", format!("{:?}", o));
        o.map(|s| s.len() as u32)
    }
    fn res(&self, x: u32) -> Result<String, String> {
        self.rec("res", format!("{}", x));
        if x % 2 == 0 {
            Ok(format!("even {}", x))
        } else {
            Err(format!("odd {}", x))
        }
    }
    fn noargs(&self) -> u64 {
        self.rec("noargs", String::new());
        0xdead_beef_0000_0001
    }
    fn set(&mut self, x: u64) {
        self.rec("set", format!("{}", x));
        self.state = x;
    }
    fn get(&self) -> u64 {
        self.rec("get", String::new());
        self.state
    }
    fn static_str(&self, i: u8) -> &'static str {
        self.rec("static_str", format!("{}", i));
        ["zero", "one", "two", "a somewhat longer static string that does not fit in sixty-four bytes of inline buffer space"][(i % 4) as usize]
    }
    fn mixed(&self, a: u8, s: &str, p: &Pos, v: &[u8], b: bool, pl: &Player, x: u128) -> String {
        let r = format!("{} {:?} {:?} {:?} {} {:?} {}", a, s, p, v, b, pl, x);
        self.rec("mixed", r.clone());
        r
    }
    fn call_fn(&self, f: &dyn Fn(u32) -> u32, x: u32) -> u32 {
        self.rec("call_fn", format!("{}", x));
        f(x).wrapping_add(f(x.wrapping_add(1)))
    }
    fn call_fnmut(&self, f: &mut dyn FnMut(String) -> usize, n: u32) -> usize {
        self.rec("call_fnmut", format!("{}", n));
        let mut t = 0;
        for i in 0..n {
            t += f("x".repeat(i as usize * 13));
        }
        t
    }
    fn call_boxed_fn(&self, f: Box<dyn Fn(u32) -> u32>, x: u32) -> u32 {
        self.rec("call_boxed_fn", format!("{}", x));
        f(x)
    }
    fn keep_boxed_fn(&mut self, f: Box<dyn Fn(u32) -> u32 + Send + Sync>) {
        self.rec("keep_boxed_fn", String::new());
        self.kept = Some(f);
    }
    fn call_kept(&self, x: u32) -> u32 {
        self.rec("call_kept", format!("{}", x));
        match &self.kept {
            Some(f) => f(x),
            None => 0,
        }
    }
    fn make_closure(&self, k: u32) -> Box<dyn Fn(u32) -> u32> {
        self.rec("make_closure", format!("{}", k));
        let t = Tracked::new("callee-closure");
        Box::new(move |x| {
            let _keep = &t;
            x.wrapping_mul(k)
        })
    }
    fn make_counter(&self, start: u32) -> Box<dyn Counter> {
        self.rec("make_counter", format!("{}", start));
        Box::new(new_counter(start))
    }
    fn use_counter(&self, mut c: Box<dyn Counter>) -> u32 {
        self.rec("use_counter", String::new());
        c.inc(5);
        c.get()
    }
    fn borrow_counter(&self, c: &dyn Counter) -> u32 {
        self.rec("borrow_counter", String::new());
        c.get().wrapping_add(1)
    }
    fn try_counter(&self, ok: bool) -> Result<Box<dyn Counter>, String> {
        self.rec("try_counter", format!("{}", ok));
        if ok {
            Ok(Box::new(new_counter(7)))
        } else {
            Err("no counter".to_string())
        }
    }
    fn fut(&self, x: u32) -> Pin<Box<dyn Future<Output = u32>>> {
        self.rec("fut", format!("{}", x));
        let t = Tracked::new("future-state");
        Box::pin(async move {
            let _keep = &t;
            YieldOnce(false).await;
            x.wrapping_mul(3)
        })
    }
    fn nested_callbacks(&mut self, x: &mut dyn FnMut(&dyn Fn(&dyn Fn() -> u32) -> u32) -> u32) -> u32 {
        self.rec("nested_callbacks", String::new());
        x(&|y| y().wrapping_add(1))
    }
    fn pinned(self: Pin<&mut Self>, arg: u32) -> u32 {
        self.rec("pinned", format!("{}", arg));
        arg ^ 0x55
    }
    fn panic_literal(&self) {
        self.rec("panic_literal", String::new());
        panic!("literal panic message");
    }
    fn panic_formatted(&self, x: u32) {
        self.rec("panic_formatted", format!("{}", x));
        panic!("formatted panic message number {}", x);
    }
    fn panic_string(&self, s: String) {
        self.rec("panic_string", format!("{:?}", s));
        std::panic::panic_any(s);
    }
    fn panic_any_value(&self) {
        self.rec("panic_any_value", String::new());
        std::panic::panic_any(42u32);
    }
    fn panic_in_callback(&self, f: &dyn Fn(u32) -> u32) -> u32 {
        self.rec("panic_in_callback", String::new());
        f(1)
    }
}

/// future that returns Pending once (exercises the waker path across the boundary)
pub struct YieldOnce(pub bool);
impl Future for YieldOnce {
    type Output = ();
    fn poll(mut self: Pin<&mut Self>, cx: &mut std::task::Context<'_>) -> std::task::Poll<()> {
        if self.0 {
            std::task::Poll::Ready(())
        } else {
            self.0 = true;
            cx.waker().wake_by_ref();
            std::task::Poll::Pending
        }
    }
}

pub fn block_on<F: Future>(f: F) -> F::Output {
    use std::sync::Arc;
    use std::task::{Context, Poll, Wake, Waker};
    struct W(std::sync::atomic::AtomicU32);
    impl Wake for W {
        fn wake(self: Arc<Self>) {
            self.0.fetch_add(1, std::sync::atomic::Ordering::SeqCst);
        }
    }
    let w = Arc::new(W(std::sync::atomic::AtomicU32::new(0)));
    let waker = Waker::from(w.clone());
    let mut cx = Context::from_waker(&waker);
    let mut f = Box::pin(f);
    for _ in 0..10_000 {
        if let Poll::Ready(x) = f.as_mut().poll(&mut cx) {
            return x;
        }
    }
    panic!("future did not complete in 10000 polls");
}

/// polls a boxed future exactly once and drops it; returns "ready" / "pending"
fn poll_once<T>(mut f: Pin<Box<dyn Future<Output = T>>>) -> &'static str {
    use std::sync::Arc;
    use std::task::{Context, Poll, Wake, Waker};
    struct W;
    impl Wake for W {
        fn wake(self: Arc<Self>) {}
    }
    let waker = Waker::from(Arc::new(W));
    let mut cx = Context::from_waker(&waker);
    match f.as_mut().poll(&mut cx) {
        Poll::Ready(_) => "ready",
        Poll::Pending => "pending",
    }
}

fn gen_string(rng: &mut Rng) -> String {
    // lengths that straddle the 64 byte inline buffer (4 byte version + 8 byte length + data)
    let l = *rng.pick(&[0usize, 1, 10, 40, 50, 51, 52, 53, 60, 63, 64, 65, 100, 130, 1000]);
    let mut s = String::new();
    let alphabet = ["a", "b", "é", "€", "😀", " ", "\"", "\\"];
    while s.len() < l {
        let c = rng.pick(&alphabet);
        if s.len() + c.len() > l {
            s.push('x');
        } else {
            s.push_str(c);
        }
    }
    s
}
fn gen_player(rng: &mut Rng) -> Player {
    Player { name: gen_string(rng), hp: rng.next_u64() as u16, tags: (0..rng.below(4)).map(|_| gen_string(rng)).collect(), pos: Pos { x: rng.next_u64() as u32, y: rng.next_u64() as u32 } }
}

fn catch<R>(f: impl FnOnce() -> R) -> Result<R, String> {
    vcore::util::catch(f)
}

/// One scripted scenario. Generic over the way the implementation is reached.
pub fn script(p: &mut dyn Plain, seed: u64, steps: usize, out: &mut Vec<String>) {
    let mut rng = Rng::new(seed);
    for step in 0..steps {
        let op = rng.below(39);
        let r: String = match op {
            0 => format!("add={}", p.add(rng.next_u64() as u32, rng.next_u64() as u32)),
            1 => format!("echo_string={:?}", p.echo_string(gen_string(&mut rng))),
            2 => format!("echo_str={:?}", p.echo_str(&gen_string(&mut rng))),
            3 => {
                let l = *rng.pick(&[0usize, 1, 40, 51, 52, 53, 64, 65, 200, 5000]);
                format!("echo_bytes={:?}", p.echo_bytes(rng.bytes(l)))
            }
            4 => {
                let v: Vec<u32> = (0..*rng.pick(&[0usize, 1, 12, 13, 14, 15, 100])).map(|_| rng.next_u64() as u32).collect();
                format!("sum_slice={}", p.sum_slice(&v))
            }
            5 => {
                let v: Vec<String> = (0..rng.below(5)).map(|_| gen_string(&mut rng)).collect();
                format!("slice_of_strings={}", p.slice_of_strings(&v))
            }
            6 => format!("pos_by_ref={:?}", p.pos_by_ref(&Pos { x: rng.next_u64() as u32, y: rng.next_u64() as u32 })),
            7 => format!("player_by_ref={:?}", p.player_by_ref(&gen_player(&mut rng))),
            8 => format!("player_by_val={:?}", p.player_by_val(gen_player(&mut rng))),
            9 => {
                let c = match rng.below(3) {
                    0 => Cmd::Nop,
                    1 => Cmd::Move(rng.next_u64() as i32, rng.next_u64() as i32),
                    _ => Cmd::Say { text: gen_string(&mut rng) },
                };
                format!("cmd={:?}", p.cmd(c))
            }
            10 => format!("tuple3={:?}", p.tuple3((rng.next_u64() as u8, rng.next_u64() as u16, rng.next_u64() as u32))),
            11 => format!("opt={:?}", p.opt(if rng.chance(1, 3) { None } else { Some(gen_string(&mut rng)) })),
            12 => format!("res={:?}", p.res(rng.next_u64() as u32)),
            13 => format!("noargs={}", p.noargs()),
            14 => {
                p.set(rng.next_u64());
                "set".to_string()
            }
            15 => format!("get={}", p.get()),
            16 => format!("static_str={}", p.static_str(rng.next_u64() as u8)),
            17 => {
                let pl = gen_player(&mut rng);
                let vl = rng.below(70);
                let v = rng.bytes(vl);
                format!("mixed={}", p.mixed(rng.next_u64() as u8, &gen_string(&mut rng), &Pos { x: 1, y: rng.next_u64() as u32 }, &v, rng.chance(1, 2), &pl, rng.next_u128()))
            }
            18 => {
                let k = rng.next_u64() as u32;
                let t = Tracked::new("caller-closure");
                let f = move |x: u32| {
                    let _keep = &t;
                    x ^ k
                };
                format!("call_fn={}", p.call_fn(&f, rng.next_u64() as u32))
            }
            19 => {
                let mut acc: Vec<usize> = vec![];
                let mut f = |s: String| {
                    acc.push(s.len());
                    s.len() + 1
                };
                let r = p.call_fnmut(&mut f, rng.below(7) as u32);
                format!("call_fnmut={} {:?}", r, acc)
            }
            20 => {
                let t = Tracked::new("caller-boxed-closure");
                let k = rng.next_u64() as u32;
                format!(
                    "call_boxed_fn={}",
                    p.call_boxed_fn(
                        Box::new(move |x| {
                            let _keep = &t;
                            x.wrapping_add(k)
                        }),
                        rng.next_u64() as u32
                    )
                )
            }
            21 => {
                let t = Tracked::new("caller-kept-closure");
                let k = rng.next_u64() as u32;
                p.keep_boxed_fn(Box::new(move |x| {
                    let _keep = &t;
                    x.wrapping_sub(k)
                }));
                "keep_boxed_fn".to_string()
            }
            22 => format!("call_kept={}", p.call_kept(rng.next_u64() as u32)),
            23 => {
                let c = p.make_closure(rng.next_u64() as u32);
                let a = c(3);
                let b = c(rng.next_u64() as u32);
                drop(c);
                format!("make_closure={} {}", a, b)
            }
            24 => {
                let mut c = p.make_counter(rng.next_u64() as u32);
                let a = c.inc(2);
                let b = c.get();
                // hand it back to the implementation (ownership crosses twice)
                let r = if rng.chance(1, 2) { p.use_counter(c) } else { p.borrow_counter(&*c) };
                format!("make_counter={} {} {}", a, b, r)
            }
            25 => format!("use_counter={}", p.use_counter(Box::new(new_counter(rng.next_u64() as u32)))),
            26 => {
                let c = new_counter(rng.next_u64() as u32);
                format!("borrow_counter={}", p.borrow_counter(&c))
            }
            27 => match p.try_counter(rng.chance(1, 2)) {
                Ok(c) => format!("try_counter=Ok({})", c.get()),
                Err(e) => format!("try_counter=Err({})", e),
            },
            28 => format!("fut={}", block_on(p.fut(rng.next_u64() as u32))),
            29 => {
                let r = p.nested_callbacks(&mut |x| x(&|| 41));
                format!("nested_callbacks={}", r)
            }
            30 => {
                let r = unsafe { Pin::new_unchecked(&mut *p) }.pinned(rng.next_u64() as u32);
                format!("pinned={}", r)
            }
            31 => format!("panic_literal={:?}", catch(std::panic::AssertUnwindSafe(|| p.panic_literal())).err()),
            32 => {
                let x = rng.next_u64() as u32;
                format!("panic_formatted={:?}", catch(std::panic::AssertUnwindSafe(|| p.panic_formatted(x))).err())
            }
            33 => {
                let s = format!("owned string payload {}", rng.below(1000));
                format!("panic_string={:?}", catch(std::panic::AssertUnwindSafe(|| p.panic_string(s))).err())
            }
            34 => format!("panic_any_value={:?}", catch(std::panic::AssertUnwindSafe(|| p.panic_any_value())).err().is_some()),
            35 => format!("panic_in_callback={:?}", catch(std::panic::AssertUnwindSafe(|| p.panic_in_callback(&|_x| panic!("callback panicked on the caller side")))).err()),
            36 => {
                // callback that re-enters the implementation's side through a second call is not possible
                // with &mut dyn Plain; exercise a chain of nested closures instead
                let r = p.call_fn(&|x| x.wrapping_mul(2), 21);
                format!("call_fn2={}", r)
            }
            37 => {
                // obtain a future, poll it once (it is Pending), then abandon it: cancellation must
                // reach the implementation side (its state is dropped exactly once)
                let f = p.fut(rng.next_u64() as u32);
                let polled = poll_once(f);
                format!("fut_abandoned={}", polled)
            }
            _ => format!("add={}", p.add(1, step as u32)),
        };
        out.push(r);
    }
}

/// Are the two result lines equivalent? Panic messages on the ABI side wrap the original message.
fn same_result(direct: &str, abi: &str) -> bool {
    if direct == abi {
        return true;
    }
    for prefix in ["panic_literal=", "panic_formatted=", "panic_string=", "panic_in_callback="] {
        if let (Some(d), Some(a)) = (direct.strip_prefix(prefix), abi.strip_prefix(prefix)) {
            // direct: Some("message"); abi: Some("... CalleePanic { msg: \"message\" } ...")
            let core = d.trim_start_matches("Some(\"").trim_end_matches("\")");
            return a.starts_with("Some(") && a.contains(core);
        }
    }
    false
}

pub fn run(ctx: &mut Ctx) {
    run_wide(ctx);
    // under Miri every shard runs one short scenario
    let scenarios = if cfg!(miri) { ctx.nshards } else { ctx.t(60, 1500) };
    let steps = if cfg!(miri) { 30 } else { ctx.t(40, 60) };
    for sc in 0..scenarios {
        if !ctx.mine(sc) {
            continue;
        }
        let seed = ctx.seed.wrapping_mul(1_000_003).wrapping_add(sc as u64);
        // direct run = sequential model
        let _ = events::take();
        let seen_d = std::sync::Arc::new(std::sync::Mutex::new(vec![]));
        let mut out_d = vec![];
        {
            let mut imp = PlainImpl::new(seen_d.clone());
            script(&mut imp, seed, steps, &mut out_d);
        }
        let ev_d = events::take();
        // run through the ABI
        let seen_a = std::sync::Arc::new(std::sync::Mutex::new(vec![]));
        let mut out_a = vec![];
        let created = {
            let boxed: Box<dyn Plain> = Box::new(PlainImpl::new(seen_a.clone()));
            match vcore::util::catch(|| AbiConnection::from_boxed_trait(boxed)) {
                Ok(Ok(mut conn)) => {
                    let r = vcore::util::catch(std::panic::AssertUnwindSafe(|| script(&mut conn, seed, steps, &mut out_a)));
                    if let Err(p) = r {
                        ctx.violation("C09:caller-side-panic-outside-scripted-panics", "Plain", J::obj(vec![("scenario_seed", J::i(seed)), ("observed", J::s(p)), ("completed_steps", J::i(out_a.len()))]));
                    }
                    drop(conn);
                    true
                }
                Ok(Err(e)) => {
                    ctx.violation("C09:connection-creation-failed", "Plain", J::obj(vec![("observed", J::s(format!("{:?}", e)))]));
                    false
                }
                Err(p) => {
                    ctx.violation("C09:connection-creation-panicked", "Plain", J::obj(vec![("observed", J::s(p))]));
                    false
                }
            }
        };
        let ev_a = events::take();
        if !created {
            continue;
        }
        ctx.count("scenarios");
        ctx.evals(out_d.len() as u64);
        // 1. results
        for (i, (d, a)) in out_d.iter().zip(out_a.iter()).enumerate() {
            let op = d.split('=').next().unwrap_or("").to_string();
            ctx.distinct(&format!("{}|{}", op, d.len().min(200) / 16));
            if same_result(d, a) {
                ctx.count("results_equal");
            } else {
                let sig = if op == "panic_formatted" && a.contains("Any { .. }") {
                    "C09:formatted-panic-message-lost".to_string()
                } else if op == "panic_string" && a.contains("Any { .. }") {
                    "C09:string-panic-payload-lost".to_string()
                } else {
                    format!("C09:result-differs:{}", op)
                };
                ctx.violation(&sig, "Plain", J::obj(vec![("scenario_seed", J::i(seed)), ("step", J::i(i)), ("direct", J::s(trunc(d))), ("through_abi", J::s(trunc(a)))]));
            }
        }
        if out_d.len() != out_a.len() {
            ctx.violation("C09:scenario-aborted", "Plain", J::obj(vec![("scenario_seed", J::i(seed)), ("direct_steps", J::i(out_d.len())), ("abi_steps", J::i(out_a.len()))]));
        }
        // 2. arguments as seen by the implementation
        let sd = seen_d.lock().unwrap().clone();
        let sa = seen_a.lock().unwrap().clone();
        if sd == sa {
            ctx.count_n("argument_records_equal", sd.len() as u64);
        } else {
            let idx = sd.iter().zip(sa.iter()).position(|(x, y)| x != y).unwrap_or(sd.len().min(sa.len()));
            ctx.violation(
                "C09:implementation-saw-different-arguments",
                "Plain",
                J::obj(vec![
                    ("scenario_seed", J::i(seed)),
                    ("first_difference_at_call", J::i(idx)),
                    ("direct", J::s(trunc(sd.get(idx).map(|x| x.as_str()).unwrap_or("<none>")))),
                    ("through_abi", J::s(trunc(sa.get(idx).map(|x| x.as_str()).unwrap_or("<none>")))),
                ]),
            );
        }
        // 3. lifetimes: every tracked object dropped exactly once, in both runs
        for (name, ev) in [("direct", &ev_d), ("abi", &ev_a)] {
            let problems = events::check_lifetimes(ev);
            let ncreated = ev.iter().filter(|e| matches!(e, Event::Created(..))).count();
            ctx.count_n("tracked_objects", ncreated as u64);
            if problems.is_empty() {
                ctx.count("lifetime_logs_clean");
            } else if name == "abi" {
                ctx.violation("C09:object-not-dropped-exactly-once", "Plain", J::obj(vec![("scenario_seed", J::i(seed)), ("problems", J::Arr(problems.iter().take(8).map(|x| J::s(x.clone())).collect()))]));
            } else {
                ctx.inconclusive(format!("harness: direct run has lifetime problems: {:?}", &problems[..problems.len().min(3)]));
            }
        }
        if sc % 37 == 0 {
            ctx.sample(
                "scenario",
                J::obj(vec![
                    ("scenario_seed", J::i(seed)),
                    ("steps", J::i(out_d.len())),
                    ("first_results", J::Arr(out_a.iter().take(6).map(|x| J::s(trunc(x))).collect())),
                    ("events_abi_run", J::i(ev_a.len())),
                ]),
            );
        }
    }
}

/// Interfaces at the documented limits: methods with 1..64 arguments (references in first, middle and
/// last position) and a trait with 70 methods. Direct call = model.
fn run_wide(ctx: &mut Ctx) {
    use crate::wide_gen::*;
    let rounds = if cfg!(miri) { 1 } else { ctx.t(6, 60) };
    for r in 0..rounds {
        if !ctx.mine(r) {
            continue;
        }
        let seed = ctx.seed.wrapping_mul(77_003).wrapping_add(r as u64);
        // --- Wide
        let seen_d = std::sync::Arc::new(std::sync::Mutex::new(vec![]));
        let mut out_d = vec![];
        drive_wide(&WideImpl(seen_d.clone()), seed, &mut out_d);
        let seen_a = std::sync::Arc::new(std::sync::Mutex::new(vec![]));
        let mut out_a = vec![];
        let boxed: Box<dyn Wide> = Box::new(WideImpl(seen_a.clone()));
        match vcore::util::catch(|| AbiConnection::from_boxed_trait(boxed)) {
            Ok(Ok(conn)) => {
                drive_wide(&conn, seed, &mut out_a);
                compare_wide(ctx, "Wide", seed, &out_d, &out_a, &seen_d.lock().unwrap(), &seen_a.lock().unwrap());
            }
            Ok(Err(e)) => ctx.violation("C09:connection-creation-failed", "Wide", J::obj(vec![("observed", J::s(format!("{:?}", e))), ("note", J::s("methods have at most 64 arguments, the documented maximum"))])),
            Err(p) => ctx.violation("C09:connection-creation-panicked", "Wide", J::obj(vec![("observed", J::s(p))])),
        }
        // --- Many
        let calls = if cfg!(miri) { MANY_METHODS } else { MANY_METHODS + 50 };
        let seen_d = std::sync::Arc::new(std::sync::Mutex::new(vec![]));
        let mut out_d = vec![];
        drive_many(&mut ManyImpl(seen_d.clone(), 1), seed, calls, &mut out_d);
        let seen_a = std::sync::Arc::new(std::sync::Mutex::new(vec![]));
        let mut out_a = vec![];
        let boxed: Box<dyn Many> = Box::new(ManyImpl(seen_a.clone(), 1));
        match vcore::util::catch(|| AbiConnection::from_boxed_trait(boxed)) {
            Ok(Ok(mut conn)) => {
                drive_many(&mut conn, seed, calls, &mut out_a);
                compare_wide(ctx, "Many", seed, &out_d, &out_a, &seen_d.lock().unwrap(), &seen_a.lock().unwrap());
            }
            Ok(Err(e)) => ctx.violation("C09:connection-creation-failed", "Many", J::obj(vec![("observed", J::s(format!("{:?}", e))), ("note", J::s("any number of methods is supported"))])),
            Err(p) => ctx.violation("C09:connection-creation-panicked", "Many", J::obj(vec![("observed", J::s(p))])),
        }
    }
}

fn compare_wide(ctx: &mut Ctx, subject: &str, seed: u64, out_d: &[String], out_a: &[String], seen_d: &[String], seen_a: &[String]) {
    ctx.count("wide_scenarios");
    ctx.evals(out_d.len() as u64);
    for (i, (d, a)) in out_d.iter().zip(out_a.iter()).enumerate() {
        let op = d.split('=').next().unwrap_or("").to_string();
        ctx.distinct(&format!("{}|{}", subject, op));
        if d == a {
            ctx.count("results_equal");
        } else {
            ctx.violation(&format!("C09:result-differs:{}", op), subject, J::obj(vec![("scenario_seed", J::i(seed)), ("call", J::i(i)), ("direct", J::s(trunc(d))), ("through_abi", J::s(trunc(a)))]));
        }
    }
    if seen_d == seen_a {
        ctx.count_n("argument_records_equal", seen_d.len() as u64);
    } else {
        let idx = seen_d.iter().zip(seen_a.iter()).position(|(x, y)| x != y).unwrap_or(seen_d.len().min(seen_a.len()));
        ctx.violation(
            "C09:implementation-saw-different-arguments",
            subject,
            J::obj(vec![
                ("scenario_seed", J::i(seed)),
                ("first_difference_at_call", J::i(idx)),
                ("direct", J::s(trunc(seen_d.get(idx).map(|x| x.as_str()).unwrap_or("<none>")))),
                ("through_abi", J::s(trunc(seen_a.get(idx).map(|x| x.as_str()).unwrap_or("<none>")))),
            ]),
        );
    }
}

fn trunc(s: &str) -> String {
    let mut t = s.to_string();
    if t.len() > 400 {
        let mut c = 400;
        while !t.is_char_boundary(c) {
            c -= 1;
        }
        t.truncate(c);
        t.push('…');
    }
    t
}
