//! C10 ABI version tolerance. The interfaces, implementations and adapters are
//! generated (fam_gen.rs) from the abi-writable evolution families of the zoo:
//! every (caller version i, implementation version j) pair is connected and the
//! values seen on both sides are compared with the reference model's projection
//! through version min(i,j).

use crate::events;
use savefile_abi::{AbiConnection, AbiExportable};
use savefile_derive::savefile_abi_exportable;
use std::sync::{Arc, Mutex};
use vcore::model::{self, GenCfg, Shape, Val};
use vcore::stdimpls::Model;
use vcore::util::{Rng, J};
use vh::ctx::Ctx;

pub type Seen = Arc<Mutex<Vec<(&'static str, Val)>>>;

pub enum Op {
    Echo(Val),
    TakeRef(Val),
    Give(u64, u32),
    EchoVec(Vec<Val>),
    OptRes(Option<Val>),
    /// value sent to the implementation, which passes it through a caller-side closure and returns the result
    ViaCb(Val),
    /// value returned through a boxed future
    Fut(Val),
    /// the implementation returns a boxed closure; the caller passes the value through it
    MkCb(Val),
}

pub struct FamImpl<T> {
    seen: Seen,
    _t: std::marker::PhantomData<fn() -> T>,
    _track: events::Tracked,
}
impl<T: Model> FamImpl<T> {
    pub fn new(seen: Seen) -> FamImpl<T> {
        FamImpl { seen, _t: std::marker::PhantomData, _track: events::Tracked::new("fam-impl") }
    }
    pub fn see(&self, m: &'static str, x: &T) {
        self.seen.lock().unwrap_or_else(|p| p.into_inner()).push((m, x.to_val()));
    }
    pub fn seen_handle(&self) -> Seen {
        self.seen.clone()
    }
    pub fn make(&self, seed: u64, maxver: u32) -> T {
        T::from_val(&make_val::<T>(seed, maxver))
    }
}
/// the value an implementation of type T produces for give(seed, maxver), as a raw generated Val
pub fn make_val<T: Model>(seed: u64, maxver: u32) -> Val {
    let mut rng = Rng::new(seed);
    model::gen_val(&T::shape(), &mut rng, &GenCfg { budget: 12, version: maxver })
}

/// Adapter from the dynamic `Op` to the typed methods of one interface version.
pub fn model_call<T: Model>(
    op: &Op,
    echo: impl FnOnce(T) -> T,
    take_ref: impl FnOnce(&T) -> u32,
    give: impl FnOnce(u64, u32) -> T,
    echo_vec: impl FnOnce(Vec<T>) -> Vec<T>,
    opt_res: impl FnOnce(Option<T>) -> Result<T, String>,
    via_cb: impl FnOnce(T, &dyn Fn(T) -> T) -> T,
    fut: impl FnOnce(T) -> std::pin::Pin<Box<dyn std::future::Future<Output = T>>>,
    mk_cb: impl FnOnce(u32) -> Box<dyn Fn(T) -> T>,
) -> Result<Val, String> {
    vcore::util::catch(std::panic::AssertUnwindSafe(|| match op {
        Op::Echo(v) => echo(T::from_val(v)).to_val(),
        Op::TakeRef(v) => Val::U(take_ref(&T::from_val(v)) as u128),
        Op::Give(s, m) => give(*s, *m).to_val(),
        Op::EchoVec(vs) => Val::Seq(echo_vec(vs.iter().map(T::from_val).collect()).iter().map(|x| x.to_val()).collect()),
        Op::OptRes(o) => match opt_res(o.as_ref().map(T::from_val)) {
            Ok(x) => Val::Ok(Box::new(x.to_val())),
            Err(e) => Val::Err(Box::new(Val::Str(e))),
        },
        Op::ViaCb(v) => {
            // the caller-side closure records what it receives and returns it unchanged
            let cb_seen = std::cell::RefCell::new(vec![]);
            let r = via_cb(T::from_val(v), &|t: T| {
                cb_seen.borrow_mut().push(t.to_val());
                t
            });
            Val::Tuple(vec![r.to_val(), Val::Seq(cb_seen.into_inner())])
        }
        Op::Fut(v) => crate::c09::block_on(fut(T::from_val(v))).to_val(),
        Op::MkCb(v) => {
            let f = mk_cb(1);
            let r = f(T::from_val(v));
            drop(f);
            r.to_val()
        }
    }))
}

pub struct PairEntry {
    pub family: &'static str,
    pub index: usize,
    pub caller: u32,
    pub callee: u32,
    pub shape_caller: fn() -> Shape,
    pub shape_callee: fn() -> Shape,
    pub mk: fn(Seen) -> Result<Box<dyn FnMut(&Op) -> Result<Val, String>>, String>,
}
pub struct LedgerEntry {
    pub family: &'static str,
    pub version: u32,
    pub verify: fn(&str) -> Result<(), String>,
}

static REPLY_MISMATCH: Mutex<Vec<(u64, u64)>> = Mutex::new(Vec::new());
static REPLIES: std::sync::atomic::AtomicU64 = std::sync::atomic::AtomicU64::new(0);
fn hook(point: &'static str, a: u64, b: u64) {
    if point == "reply" {
        REPLIES.fetch_add(1, std::sync::atomic::Ordering::SeqCst);
        if a != b {
            if let Ok(mut g) = REPLY_MISMATCH.lock() {
                g.push((a, b));
            }
        }
    }
}

/// what does a receiver built against `to_shape` see when `v` (a value of `from_shape`) is
/// transmitted at version `eff`? (reference model)
fn project(v: &Val, from_shape: &Shape, to_shape: &Shape, eff: u32) -> Result<Val, String> {
    let bytes = model::encode(v, from_shape, eff)?;
    let (x, used) = model::decode(&bytes, to_shape, eff)?;
    if used != bytes.len() {
        return Err(format!("generator inconsistency: {} of {} bytes", used, bytes.len()));
    }
    Ok(x)
}

pub fn run(ctx: &mut Ctx) {
    savefile_abi::verif_hooks::set_hook(Some(hook));
    let mut pairs = crate::fam_gen::pairs();
    #[cfg(feature = "extra_zoo")]
    pairs.extend(crate::fam_gen_extra::pairs());
    let nvals = if cfg!(miri) { 1 } else { ctx.t(6, 40) };
    let child = crate::isolate::child_item();
    for (pi, p) in pairs.iter().enumerate() {
        match child {
            Some(it) => {
                if it != pi {
                    continue;
                }
            }
            None => {
                if !ctx.mine(pi) || !ctx.wants_type(p.family) {
                    continue;
                }
                if !crate::isolate::in_process() {
                    // one child process per (caller, implementation) pair
                    let label = format!("{}:caller-v{}/impl-v{}", p.family, p.caller, p.callee);
                    let sig = if p.caller > p.callee { "C10:process-died-parsing-newer-return-value" } else { "C10:process-died" };
                    crate::isolate::run_child(ctx, "C10", pi, &label, 120, sig);
                    continue;
                }
            }
        }
        let (i, j) = (p.caller, p.callee);
        let eff = i.min(j);
        let label = format!("{}:caller-v{}/impl-v{}", p.family, i, j);
        let (si, sj) = ((p.shape_caller)(), (p.shape_callee)());
        let seen: Seen = Arc::new(Mutex::new(vec![]));
        let mut call = match (p.mk)(seen.clone()) {
            Ok(c) => c,
            Err(e) => {
                ctx.violation("C10:compatible-versions-fail-to-connect", &label, J::obj(vec![("observed", J::s(e))]));
                continue;
            }
        };
        ctx.count("pairs_connected");
        if i != j {
            ctx.count("cross_version_pairs");
        }
        let mut rng = Rng::derive(ctx.seed, &format!("c10/{}", label));
        // families of the additional thorough-tier zoo are labelled XF<n>
        #[cfg(feature = "extra_zoo")]
        let fams = if p.family.starts_with('X') { vcore::zoo_extra::families() } else { vcore::zoo::families() };
        #[cfg(not(feature = "extra_zoo"))]
        let fams = vcore::zoo::families();
        let caller_entry = fams.get(p.index).and_then(|f| f.versions.get(i as usize));
        for n in 0..nvals {
            // ---- arguments: caller -> implementation
            let g = model::gen_val(&si, &mut rng, &GenCfg { budget: 10, version: eff });
            // canonical form of the generated value as the caller's real type holds it (maps de-duplicated and ordered)
            let g = match caller_entry {
                Some(e) => match vcore::util::catch(|| e.ops.normalize(&g)) {
                    Ok(x) => x,
                    Err(_) => continue,
                },
                None => g,
            };
            let Ok(vi) = project(&g, &si, &si, i.max(eff)).or_else(|_| project(&g, &si, &si, eff)) else { continue };
            let Ok(expect_seen) = project(&vi, &si, &sj, eff) else {
                ctx.count("not_expressible_at_negotiated_version");
                continue;
            };
            let Ok(expect_back) = project(&expect_seen, &sj, &si, eff) else { continue };
            for (opname, op) in [("echo", Op::Echo(vi.clone())), ("take_ref", Op::TakeRef(vi.clone())), ("echo_vec", Op::EchoVec(vec![vi.clone(), vi.clone()])), ("opt_res", Op::OptRes(Some(vi.clone())))] {
                ctx.eval();
                seen.lock().unwrap().clear();
                let res = call(&op);
                let saw: Vec<Val> = seen.lock().unwrap().iter().map(|x| x.1.clone()).collect();
                ctx.distinct(&format!("{}|{}|{}", label, opname, model::val_class(&vi)));
                let mk = |observed: String| {
                    J::obj(vec![
                        ("interface_family", J::s(p.family)),
                        ("caller_version", J::i(i)),
                        ("implementation_version", J::i(j)),
                        ("negotiated_version_expected", J::i(eff)),
                        ("method", J::s(opname)),
                        ("argument", J::s(model::val_brief(&vi, 300))),
                        ("implementation_should_see", J::s(model::val_brief(&expect_seen, 300))),
                        ("caller_should_get_back", J::s(model::val_brief(&expect_back, 300))),
                        ("observed", J::s(observed)),
                    ])
                };
                let n_expected = if opname == "echo_vec" { 2 } else { 1 };
                if saw.len() != n_expected || saw.iter().any(|x| x != &expect_seen) {
                    ctx.violation("C10:implementation-saw-wrong-argument", &label, mk(format!("implementation saw {}", model::val_brief(&Val::Seq(saw.clone()), 300))));
                } else {
                    ctx.count("arguments_as_expected");
                }
                let want = match opname {
                    "echo" => expect_back.clone(),
                    "take_ref" => Val::U(7),
                    "echo_vec" => Val::Seq(vec![expect_back.clone(), expect_back.clone()]),
                    _ => Val::Ok(Box::new(expect_back.clone())),
                };
                match res {
                    Ok(r) if r == want => ctx.count("returns_as_expected"),
                    Ok(r) => {
                        let sig = if i > j && opname != "take_ref" { "C10:return-value-not-in-negotiated-version" } else { "C10:caller-got-wrong-return-value" };
                        ctx.violation(sig, &label, mk(format!("caller received {}", model::val_brief(&r, 300))));
                    }
                    Err(pmsg) => {
                        let sig = if i > j && opname != "take_ref" { "C10:return-value-not-in-negotiated-version" } else { "C10:call-panicked" };
                        ctx.violation(sig, &label, mk(format!("call panicked: {}", pmsg)));
                    }
                }
            }
            // ---- closures and futures: every hop is transmitted at the negotiated version
            // (caller -> implementation -> caller-side closure -> implementation -> caller)
            if let (Ok(a), ) = (project(&vi, &si, &sj, eff), ) {
                if let Ok(b) = project(&a, &sj, &si, eff) {
                    if let (Ok(c), ) = (project(&b, &si, &sj, eff), ) {
                        if let Ok(d) = project(&c, &sj, &si, eff) {
                            let mkj = |method: &str, observed: String| {
                                J::obj(vec![
                                    ("interface_family", J::s(p.family)),
                                    ("caller_version", J::i(i)),
                                    ("implementation_version", J::i(j)),
                                    ("negotiated_version_expected", J::i(eff)),
                                    ("method", J::s(method)),
                                    ("argument", J::s(model::val_brief(&vi, 300))),
                                    ("implementation_should_see", J::s(model::val_brief(&a, 300))),
                                    ("caller_side_should_see", J::s(model::val_brief(&b, 300))),
                                    ("observed", J::s(observed)),
                                ])
                            };
                            // via_cb
                            ctx.eval();
                            seen.lock().unwrap().clear();
                            let res = call(&Op::ViaCb(vi.clone()));
                            let saw: Vec<(&'static str, Val)> = seen.lock().unwrap().clone();
                            ctx.distinct(&format!("{}|via_cb|{}", label, model::val_class(&vi)));
                            let want_saw = vec![("via_cb", a.clone()), ("via_cb_ret", c.clone())];
                            let want_res = Val::Tuple(vec![d.clone(), Val::Seq(vec![b.clone()])]);
                            match res {
                                Ok(r) if r == want_res && saw == want_saw => {
                                    ctx.count("closure_hops_as_expected");
                                    ctx.count("arguments_as_expected");
                                    ctx.count("returns_as_expected");
                                }
                                Ok(r) => ctx.violation(
                                    "C10:closure-argument-or-result-not-in-negotiated-version",
                                    &label,
                                    mkj("via_cb", format!("implementation saw {:?}; caller received (result, [closure argument]) = {}", saw.iter().map(|x| format!("{}={}", x.0, model::val_brief(&x.1, 120))).collect::<Vec<_>>(), model::val_brief(&r, 300))),
                                ),
                                Err(pmsg) => ctx.violation("C10:call-panicked", &label, mkj("via_cb", format!("call panicked: {}", pmsg))),
                            }
                            // fut
                            ctx.eval();
                            seen.lock().unwrap().clear();
                            let res = call(&Op::Fut(vi.clone()));
                            let saw: Vec<Val> = seen.lock().unwrap().iter().map(|x| x.1.clone()).collect();
                            ctx.distinct(&format!("{}|fut|{}", label, model::val_class(&vi)));
                            match res {
                                Ok(r) if r == b && saw == vec![a.clone()] => {
                                    ctx.count("future_outputs_as_expected");
                                    ctx.count("returns_as_expected");
                                }
                                Ok(r) => ctx.violation("C10:future-output-not-in-negotiated-version", &label, mkj("fut", format!("implementation saw {}; caller received {}", model::val_brief(&Val::Seq(saw), 200), model::val_brief(&r, 300)))),
                                Err(pmsg) => ctx.violation("C10:call-panicked", &label, mkj("fut", format!("call panicked: {}", pmsg))),
                            }
                            // mk_cb: closure created by the implementation, called by the caller
                            ctx.eval();
                            seen.lock().unwrap().clear();
                            let res = call(&Op::MkCb(vi.clone()));
                            let saw: Vec<Val> = seen.lock().unwrap().iter().map(|x| x.1.clone()).collect();
                            ctx.distinct(&format!("{}|mk_cb|{}", label, model::val_class(&vi)));
                            match res {
                                Ok(r) if r == b && saw == vec![a.clone()] => {
                                    ctx.count("returned_closures_as_expected");
                                    ctx.count("returns_as_expected");
                                }
                                Ok(r) => ctx.violation("C10:returned-closure-not-in-negotiated-version", &label, mkj("mk_cb", format!("implementation-side closure saw {}; caller received {}", model::val_brief(&Val::Seq(saw), 200), model::val_brief(&r, 300)))),
                                Err(pmsg) => ctx.violation("C10:call-panicked", &label, mkj("mk_cb", format!("call panicked: {}", pmsg))),
                            }
                        }
                    }
                }
            }
            // ---- return values produced by the implementation
            ctx.eval();
            let seed = rng.next_u64();
            let res = call(&Op::Give(seed, eff));
            let mk = |observed: String| {
                J::obj(vec![
                    ("interface_family", J::s(p.family)),
                    ("caller_version", J::i(i)),
                    ("implementation_version", J::i(j)),
                    ("method", J::s("give")),
                    ("give_seed", J::i(seed)),
                    ("observed", J::s(observed)),
                ])
            };
            // the implementation's value, computed independently with the same generator
            let produced = fams.get(p.index).and_then(|f| f.versions.get(j as usize)).map(|e| {
                let mut r2 = Rng::new(seed);
                let g = model::gen_val(&sj, &mut r2, &GenCfg { budget: 12, version: eff });
                e.ops.normalize(&g)
            });
            if let Some(yj) = produced {
                match project(&yj, &sj, &si, eff) {
                    Ok(want) => match res {
                        Ok(r) if r == want => ctx.count("returns_as_expected"),
                        Ok(r) => ctx.violation(
                            if i > j { "C10:return-value-not-in-negotiated-version" } else { "C10:caller-got-wrong-return-value" },
                            &label,
                            mk(format!("implementation returned {}, caller should see {}, caller received {}", model::val_brief(&yj, 200), model::val_brief(&want, 200), model::val_brief(&r, 200))),
                        ),
                        Err(pmsg) => ctx.violation(if i > j { "C10:return-value-not-in-negotiated-version" } else { "C10:call-panicked" }, &label, mk(format!("call panicked: {}", pmsg))),
                    },
                    Err(_) => ctx.count("not_expressible_at_negotiated_version"),
                }
            }
            if n == 0 && pi % 9 == 0 {
                ctx.sample("pair", J::obj(vec![("pair", J::s(label.clone())), ("argument", J::s(model::val_brief(&vi, 200))), ("implementation_saw", J::s(model::val_brief(&expect_seen, 200)))]));
            }
        }
        drop(call);
    }
    // reply framing monitor (hook "reply": bytes in the reply vs bytes consumed by the caller)
    let n = REPLIES.load(std::sync::atomic::Ordering::SeqCst);
    ctx.count_n("reply_hook_events", n);
    let mism = REPLY_MISMATCH.lock().map(|g| g.clone()).unwrap_or_default();
    if !mism.is_empty() {
        ctx.violation(
            "C10:reply-not-consumed-exactly",
            "reply-framing",
            J::obj(vec![("mismatches", J::i(mism.len())), ("first", J::s(format!("reply of {} bytes, caller consumed {}", mism[0].0, mism[0].1)))]),
        );
    }
    if (child.is_none() && ctx.mine(0) && crate::isolate::in_process()) || child == Some(usize::MAX - 1) {
        method_presence(ctx);
    } else if child.is_none() && ctx.mine(0) {
        crate::isolate::run_child(ctx, "C10", usize::MAX - 1, "Evolve", 120, "C10:process-died");
    }
    savefile_abi::verif_hooks::set_hook(None);
}

// ---- methods that exist on one side only; incompatible signature changes --------------------------

pub mod evo_a {
    use super::*;
    #[savefile_abi_exportable(version = 0)]
    pub trait Evolve {
        fn common(&self, x: u32) -> u32;
        fn only_in_a(&self, x: u32) -> u32;
        fn changed_arg_count(&self, x: u32) -> u32;
        fn changed_arg_type(&self, x: u32) -> u32;
        fn changed_ret_type(&self, x: u32) -> u32;
        fn cb_ret_changed(&self, f: &dyn Fn(u32) -> u32) -> u32;
        fn cb_arg_changed(&self, f: &dyn Fn(u32) -> u32) -> u32;
        fn fut_out_changed(&self, x: u32) -> std::pin::Pin<Box<dyn std::future::Future<Output = u32>>>;
        fn boxed_cb_ret_changed(&self, f: Box<dyn Fn(u32) -> u32>) -> u32;
    }
}
pub mod evo_f {
    use super::*;
    #[savefile_abi_exportable(version = 0)]
    pub trait Evolve {
        fn common(&self, x: u32) -> u32;
        fn cb_ret_changed(&self, f: &dyn Fn(u32) -> String) -> u32;
    }
}
pub mod evo_g {
    use super::*;
    #[savefile_abi_exportable(version = 0)]
    pub trait Evolve {
        fn common(&self, x: u32) -> u32;
        fn cb_arg_changed(&self, f: &dyn Fn(String) -> u32) -> u32;
    }
}
pub mod evo_h {
    use super::*;
    #[savefile_abi_exportable(version = 0)]
    pub trait Evolve {
        fn common(&self, x: u32) -> u32;
        fn fut_out_changed(&self, x: u32) -> std::pin::Pin<Box<dyn std::future::Future<Output = String>>>;
    }
}
pub mod evo_i {
    use super::*;
    #[savefile_abi_exportable(version = 0)]
    pub trait Evolve {
        fn common(&self, x: u32) -> u32;
        fn boxed_cb_ret_changed(&self, f: Box<dyn Fn(u32) -> String>) -> u32;
    }
}
// two versions of a #[repr(C)] struct whose memory layouts are structurally identical although the field at
// offset 4 means something else (b0 removed, n2 added in version 2): a reference must not be handed over raw
pub mod alias_v1 {
    use super::*;
    #[derive(savefile_derive::Savefile, Debug, Clone, PartialEq)]
    #[repr(C)]
    pub struct P {
        pub n1: u32,
        pub b0: u32,
    }
    #[savefile_abi_exportable(version = 1)]
    pub trait Alias {
        fn by_ref(&self, p: &P) -> u64;
        fn by_val(&self, p: P) -> u64;
        fn slice(&self, p: &[P]) -> u64;
    }
}
pub mod alias_v2 {
    use super::*;
    #[derive(savefile_derive::Savefile, Debug)]
    #[repr(C)]
    pub struct P {
        pub n1: u32,
        #[savefile_versions = "2.."]
        pub n2: u32,
        #[savefile_versions = "..1"]
        pub b0: savefile::AbiRemoved<u32>,
    }
    #[savefile_abi_exportable(version = 2)]
    pub trait Alias {
        fn by_ref(&self, p: &P) -> u64;
        fn by_val(&self, p: P) -> u64;
        fn slice(&self, p: &[P]) -> u64;
    }
}
pub struct AliasImpl;
impl alias_v1::Alias for AliasImpl {
    fn by_ref(&self, p: &alias_v1::P) -> u64 {
        ((p.n1 as u64) << 32) | p.b0 as u64
    }
    fn by_val(&self, p: alias_v1::P) -> u64 {
        ((p.n1 as u64) << 32) | p.b0 as u64
    }
    fn slice(&self, p: &[alias_v1::P]) -> u64 {
        p.iter().fold(0u64, |a, x| a.wrapping_mul(31).wrapping_add(((x.n1 as u64) << 32) | x.b0 as u64))
    }
}
impl alias_v2::Alias for AliasImpl {
    fn by_ref(&self, p: &alias_v2::P) -> u64 {
        ((p.n1 as u64) << 32) | p.n2 as u64
    }
    fn by_val(&self, p: alias_v2::P) -> u64 {
        ((p.n1 as u64) << 32) | p.n2 as u64
    }
    fn slice(&self, p: &[alias_v2::P]) -> u64 {
        p.iter().fold(0u64, |a, x| a.wrapping_mul(31).wrapping_add(((x.n1 as u64) << 32) | x.n2 as u64))
    }
}

fn layout_aliasing(ctx: &mut Ctx) {
    use alias_v1::Alias as _;
    use alias_v2::Alias as _;
    let mut rng = Rng::derive(ctx.seed, "c10/alias");
    // caller v1 -> implementation v2: negotiated version 1; the implementation must see n2 = 0 (its default)
    let r = vcore::util::catch(|| unsafe { AbiConnection::<dyn alias_v1::Alias>::from_boxed_trait_for_test(<dyn alias_v2::Alias as AbiExportable>::ABI_ENTRY, Box::new(AliasImpl) as Box<dyn alias_v2::Alias>) });
    match r {
        Ok(Ok(conn)) => {
            for _ in 0..ctx.t(20, 200) {
                let p = alias_v1::P { n1: rng.next_u64() as u32, b0: (rng.next_u64() as u32) | 1 };
                let want = (p.n1 as u64) << 32;
                let want_slice = [p.clone(), p.clone()].iter().fold(0u64, |a, x| a.wrapping_mul(31).wrapping_add((x.n1 as u64) << 32));
                for (m, got, want) in [("by_ref", vcore::util::catch(std::panic::AssertUnwindSafe(|| conn.by_ref(&p))), want), ("by_val", vcore::util::catch(std::panic::AssertUnwindSafe(|| conn.by_val(p.clone()))), want), ("slice", vcore::util::catch(std::panic::AssertUnwindSafe(|| conn.slice(&[p.clone(), p.clone()]))), want_slice)] {
                    ctx.eval();
                    ctx.distinct(&format!("alias|1->2|{}", m));
                    if got == Ok(want) {
                        ctx.count("aliasing_layouts_seen_through_negotiated_version");
                    } else {
                        ctx.violation("C10:field-of-other-version-read-through-identical-layout", "Alias:caller-v1/impl-v2", J::obj(vec![("method", J::s(m)), ("argument", J::s(format!("{:?}", p))), ("implementation_should_see", J::s(format!("P {{ n1: {}, n2: 0 }} (n2 was added in version 2; b0 does not exist there)", p.n1))), ("observed", J::s(format!("returned {:?}, expected {:#x}", got.map(|x| format!("{:#x}", x)), want)))]));
                    }
                }
            }
        }
        other => ctx.violation("C10:compatible-versions-fail-to-connect", "Alias:caller-v1/impl-v2", J::obj(vec![("observed", J::s(format!("{:?}", other.map(|x| x.map(|_| "conn")))))])),
    }
    // caller v2 -> implementation v1: the implementation must see b0 = 0 (value constructor of the removed field)
    let r = vcore::util::catch(|| unsafe { AbiConnection::<dyn alias_v2::Alias>::from_boxed_trait_for_test(<dyn alias_v1::Alias as AbiExportable>::ABI_ENTRY, Box::new(AliasImpl) as Box<dyn alias_v1::Alias>) });
    match r {
        Ok(Ok(conn)) => {
            for _ in 0..ctx.t(20, 200) {
                let (n1, n2) = (rng.next_u64() as u32, (rng.next_u64() as u32) | 1);
                let p = alias_v2::P { n1, n2, b0: savefile::AbiRemoved::new() };
                let want = (p.n1 as u64) << 32;
                for (m, got) in [("by_ref", vcore::util::catch(std::panic::AssertUnwindSafe(|| conn.by_ref(&p)))), ("by_val", vcore::util::catch(std::panic::AssertUnwindSafe(|| conn.by_val(alias_v2::P { n1, n2, b0: savefile::AbiRemoved::new() }))))] {
                    ctx.eval();
                    ctx.distinct(&format!("alias|2->1|{}", m));
                    if got == Ok(want) {
                        ctx.count("aliasing_layouts_seen_through_negotiated_version");
                    } else {
                        ctx.violation("C10:field-of-other-version-read-through-identical-layout", "Alias:caller-v2/impl-v1", J::obj(vec![("method", J::s(m)), ("argument", J::s(format!("{:?}", p))), ("implementation_should_see", J::s(format!("P {{ n1: {}, b0: 0 }}", p.n1))), ("observed", J::s(format!("returned {:?}, expected {:#x}", got.map(|x| format!("{:#x}", x)), want)))]));
                    }
                }
            }
        }
        other => ctx.violation("C10:compatible-versions-fail-to-connect", "Alias:caller-v2/impl-v1", J::obj(vec![("observed", J::s(format!("{:?}", other.map(|x| x.map(|_| "conn")))))])),
    }
}

// nested interfaces (boxed trait object arguments) whose method sets differ between the two sides
pub mod objs_small {
    use super::*;
    #[savefile_abi_exportable(version = 0)]
    pub trait Obj {
        fn get(&self) -> u32;
    }
}
pub mod objs_big {
    use super::*;
    #[savefile_abi_exportable(version = 0)]
    pub trait Obj {
        fn get(&self) -> u32;
        fn extra(&self) -> u32;
    }
}
pub struct ObjImpl(pub u32);
impl objs_small::Obj for ObjImpl {
    fn get(&self) -> u32 {
        self.0
    }
}
impl objs_big::Obj for ObjImpl {
    fn get(&self) -> u32 {
        self.0
    }
    fn extra(&self) -> u32 {
        self.0 + 100
    }
}
pub mod nest_small {
    use super::objs_small::Obj;
    use super::*;
    #[savefile_abi_exportable(version = 0)]
    pub trait Nest {
        fn take_obj(&self, o: Box<dyn Obj>) -> u32;
        fn give_obj(&self, x: u32) -> Box<dyn Obj>;
    }
}
pub mod nest_big {
    use super::objs_big::Obj;
    use super::*;
    #[savefile_abi_exportable(version = 0)]
    pub trait Nest {
        fn take_obj(&self, o: Box<dyn Obj>) -> u32;
        fn give_obj(&self, x: u32) -> Box<dyn Obj>;
    }
}
pub struct NestImpl;
impl nest_small::Nest for NestImpl {
    fn take_obj(&self, o: Box<dyn objs_small::Obj>) -> u32 {
        o.get() + 1
    }
    fn give_obj(&self, x: u32) -> Box<dyn objs_small::Obj> {
        Box::new(ObjImpl(x))
    }
}
impl nest_big::Nest for NestImpl {
    fn take_obj(&self, o: Box<dyn objs_big::Obj>) -> u32 {
        o.get() + 1
    }
    fn give_obj(&self, x: u32) -> Box<dyn objs_big::Obj> {
        Box::new(ObjImpl(x))
    }
}
pub mod evo_b {
    use super::*;
    #[savefile_abi_exportable(version = 0)]
    pub trait Evolve {
        fn only_in_b(&self, x: u32) -> u32;
        fn common(&self, x: u32) -> u32;
    }
}
pub mod evo_c {
    use super::*;
    #[savefile_abi_exportable(version = 0)]
    pub trait Evolve {
        fn common(&self, x: u32) -> u32;
        fn changed_arg_count(&self, x: u32, y: u32) -> u32;
    }
}
pub mod evo_d {
    use super::*;
    #[savefile_abi_exportable(version = 0)]
    pub trait Evolve {
        fn common(&self, x: u32) -> u32;
        fn changed_arg_type(&self, x: String) -> u32;
    }
}
pub mod evo_e {
    use super::*;
    #[savefile_abi_exportable(version = 0)]
    pub trait Evolve {
        fn common(&self, x: u32) -> u32;
        fn changed_ret_type(&self, x: u32) -> String;
    }
}
pub struct EvoImpl;
impl evo_a::Evolve for EvoImpl {
    fn common(&self, x: u32) -> u32 {
        x + 1
    }
    fn only_in_a(&self, x: u32) -> u32 {
        x + 2
    }
    fn changed_arg_count(&self, x: u32) -> u32 {
        x
    }
    fn changed_arg_type(&self, x: u32) -> u32 {
        x
    }
    fn changed_ret_type(&self, x: u32) -> u32 {
        x
    }
    fn cb_ret_changed(&self, f: &dyn Fn(u32) -> u32) -> u32 {
        f(1)
    }
    fn cb_arg_changed(&self, f: &dyn Fn(u32) -> u32) -> u32 {
        f(2)
    }
    fn fut_out_changed(&self, x: u32) -> std::pin::Pin<Box<dyn std::future::Future<Output = u32>>> {
        Box::pin(async move { x })
    }
    fn boxed_cb_ret_changed(&self, f: Box<dyn Fn(u32) -> u32>) -> u32 {
        f(3)
    }
}
impl evo_f::Evolve for EvoImpl {
    fn common(&self, x: u32) -> u32 {
        x + 1
    }
    fn cb_ret_changed(&self, f: &dyn Fn(u32) -> String) -> u32 {
        f(1).len() as u32
    }
}
impl evo_g::Evolve for EvoImpl {
    fn common(&self, x: u32) -> u32 {
        x + 1
    }
    fn cb_arg_changed(&self, f: &dyn Fn(String) -> u32) -> u32 {
        f("two".to_string())
    }
}
impl evo_h::Evolve for EvoImpl {
    fn common(&self, x: u32) -> u32 {
        x + 1
    }
    fn fut_out_changed(&self, x: u32) -> std::pin::Pin<Box<dyn std::future::Future<Output = String>>> {
        Box::pin(async move { x.to_string() })
    }
}
impl evo_i::Evolve for EvoImpl {
    fn common(&self, x: u32) -> u32 {
        x + 1
    }
    fn boxed_cb_ret_changed(&self, f: Box<dyn Fn(u32) -> String>) -> u32 {
        f(3).len() as u32
    }
}
impl evo_b::Evolve for EvoImpl {
    fn only_in_b(&self, x: u32) -> u32 {
        x + 3
    }
    fn common(&self, x: u32) -> u32 {
        x + 1
    }
}
impl evo_c::Evolve for EvoImpl {
    fn common(&self, x: u32) -> u32 {
        x + 1
    }
    fn changed_arg_count(&self, x: u32, y: u32) -> u32 {
        x + y
    }
}
impl evo_d::Evolve for EvoImpl {
    fn common(&self, x: u32) -> u32 {
        x + 1
    }
    fn changed_arg_type(&self, x: String) -> u32 {
        x.len() as u32
    }
}
impl evo_e::Evolve for EvoImpl {
    fn common(&self, x: u32) -> u32 {
        x + 1
    }
    fn changed_ret_type(&self, x: u32) -> String {
        x.to_string()
    }
}

fn method_presence(ctx: &mut Ctx) {
    layout_aliasing(ctx);
    use evo_a::Evolve as A;
    // caller A, implementation B: methods differ, connecting must work; common works; only_in_a panics naming the method
    ctx.eval();
    let conn = vcore::util::catch(|| unsafe { AbiConnection::<dyn evo_a::Evolve>::from_boxed_trait_for_test(<dyn evo_b::Evolve as AbiExportable>::ABI_ENTRY, Box::new(EvoImpl) as Box<dyn evo_b::Evolve>) });
    match conn {
        Ok(Ok(conn)) => {
            ctx.count("method_presence_connects");
            ctx.distinct("presence|connect");
            match vcore::util::catch(std::panic::AssertUnwindSafe(|| conn.common(5))) {
                Ok(6) => ctx.count("common_method_works"),
                other => ctx.violation("C10:common-method-fails", "Evolve:A->B", J::obj(vec![("observed", J::s(format!("{:?}", other)))])),
            }
            match vcore::util::catch(std::panic::AssertUnwindSafe(|| conn.only_in_a(5))) {
                Err(m) if m.contains("only_in_a") => {
                    ctx.count("missing_method_panics_with_name");
                    ctx.distinct("presence|missing-method-panic");
                }
                other => ctx.violation("C10:missing-method-not-a-clear-panic", "Evolve:A->B", J::obj(vec![("observed", J::s(format!("{:?}", other)))])),
            }
            // the connection stays usable
            match vcore::util::catch(std::panic::AssertUnwindSafe(|| conn.common(7))) {
                Ok(8) => ctx.count("usable_after_missing_method"),
                other => ctx.violation("C10:unusable-after-missing-method", "Evolve:A->B", J::obj(vec![("observed", J::s(format!("{:?}", other)))])),
            }
        }
        other => ctx.violation("C10:method-set-difference-prevents-connecting", "Evolve:A->B", J::obj(vec![("observed", J::s(format!("{:?}", other.map(|x| x.map(|_| "conn")))))])),
    }
    // nested interfaces with different method sets: connecting and the common methods must work
    {
        use nest_big::Nest as _;
        use nest_small::Nest as _;
        use objs_big::Obj as _;
        use objs_small::Obj as _;
        ctx.eval();
        let r = vcore::util::catch(|| unsafe { AbiConnection::<dyn nest_small::Nest>::from_boxed_trait_for_test(<dyn nest_big::Nest as AbiExportable>::ABI_ENTRY, Box::new(NestImpl) as Box<dyn nest_big::Nest>) });
        match r {
            Ok(Ok(conn)) => {
                ctx.count("nested_method_presence_connects");
                ctx.distinct("presence|nested|small-caller");
                let a = vcore::util::catch(std::panic::AssertUnwindSafe(|| conn.take_obj(Box::new(ObjImpl(5)))));
                let b = vcore::util::catch(std::panic::AssertUnwindSafe(|| conn.give_obj(9).get()));
                if a == Ok(6) && b == Ok(9) {
                    ctx.count("nested_common_methods_work");
                } else {
                    ctx.violation("C10:nested-common-method-fails", "Nest:small->big", J::obj(vec![("observed", J::s(format!("take_obj -> {:?}, give_obj().get() -> {:?}", a, b)))]));
                }
            }
            other => ctx.violation(
                "C10:nested-method-set-difference-prevents-connecting",
                "Nest:small->big",
                J::obj(vec![("caller", J::s("trait Nest { fn take_obj(&self, o: Box<dyn Obj>) -> u32; fn give_obj(&self, x: u32) -> Box<dyn Obj>; } with trait Obj { fn get(&self) -> u32; }")), ("implementation", J::s("same, but its trait Obj also has fn extra(&self) -> u32")), ("observed", J::s(format!("{:?}", other.map(|x| x.map(|_| "conn")))))]),
            ),
        }
        ctx.eval();
        let r = vcore::util::catch(|| unsafe { AbiConnection::<dyn nest_big::Nest>::from_boxed_trait_for_test(<dyn nest_small::Nest as AbiExportable>::ABI_ENTRY, Box::new(NestImpl) as Box<dyn nest_small::Nest>) });
        match r {
            Ok(Ok(conn)) => {
                ctx.count("nested_method_presence_connects");
                ctx.distinct("presence|nested|big-caller");
                let a = vcore::util::catch(std::panic::AssertUnwindSafe(|| conn.take_obj(Box::new(ObjImpl(5)))));
                let b = vcore::util::catch(std::panic::AssertUnwindSafe(|| conn.give_obj(9).get()));
                if a == Ok(6) && b == Ok(9) {
                    ctx.count("nested_common_methods_work");
                } else {
                    ctx.violation("C10:nested-common-method-fails", "Nest:big->small", J::obj(vec![("observed", J::s(format!("take_obj -> {:?}, give_obj().get() -> {:?}", a, b)))]));
                }
                match vcore::util::catch(std::panic::AssertUnwindSafe(|| conn.give_obj(9).extra())) {
                    Err(m) if m.contains("extra") => ctx.count("missing_method_panics_with_name"),
                    other => ctx.violation("C10:missing-method-not-a-clear-panic", "Nest:big->small", J::obj(vec![("observed", J::s(format!("{:?}", other)))])),
                }
            }
            other => ctx.violation(
                "C10:nested-method-set-difference-prevents-connecting",
                "Nest:big->small",
                J::obj(vec![("caller", J::s("trait Nest { fn take_obj(&self, o: Box<dyn Obj>) -> u32; fn give_obj(&self, x: u32) -> Box<dyn Obj>; } with trait Obj { fn get(&self) -> u32; fn extra(&self) -> u32; }")), ("implementation", J::s("same, but its trait Obj has only fn get(&self) -> u32")), ("observed", J::s(format!("{:?}", other.map(|x| x.map(|_| "conn")))))]),
            ),
        }
    }
    // incompatible signatures must be rejected at connection time
    macro_rules! incompatible {
        ($m:ident, $what:expr) => {{
            ctx.eval();
            let r = vcore::util::catch(|| unsafe { AbiConnection::<dyn evo_a::Evolve>::from_boxed_trait_for_test(<dyn $m::Evolve as AbiExportable>::ABI_ENTRY, Box::new(EvoImpl) as Box<dyn $m::Evolve>) });
            match r {
                Ok(Err(_)) => {
                    ctx.count("incompatible_signature_rejected");
                    ctx.distinct(&format!("presence|reject|{}", $what));
                }
                Ok(Ok(_)) => ctx.violation("C10:incompatible-signature-accepted", $what, J::obj(vec![("observed", J::s("connection was created"))])),
                Err(p) => ctx.violation("C10:incompatible-signature-panics", $what, J::obj(vec![("observed", J::s(p))])),
            }
        }};
    }
    incompatible!(evo_c, "argument count changed");
    incompatible!(evo_d, "argument type changed");
    incompatible!(evo_e, "return type changed");
    incompatible!(evo_f, "return type of a closure argument changed");
    incompatible!(evo_g, "argument type of a closure argument changed");
    incompatible!(evo_h, "output type of a returned future changed");
    incompatible!(evo_i, "return type of a boxed closure argument changed");
}
