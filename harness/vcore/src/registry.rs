//! Registry of library-supported types exercised by the checks, plus access to
//! the generated zoo.

use crate::entry;
use crate::ops::{Family, TypeEntry};
use std::collections::{BTreeMap, BTreeSet, BinaryHeap, HashMap, HashSet, VecDeque};
use std::rc::Rc;
use std::sync::Arc;

type FxMap<K, V> = HashMap<K, V, rustc_hash::FxBuildHasher>;
type FxSet<K> = HashSet<K, rustc_hash::FxBuildHasher>;

pub fn library_entries() -> Vec<TypeEntry> {
    let mut v: Vec<TypeEntry> = vec![
        entry!(bool),
        entry!(u8),
        entry!(u16),
        entry!(u32),
        entry!(u64),
        entry!(u128),
        entry!(i8),
        entry!(i16),
        entry!(i32),
        entry!(i64),
        entry!(i128),
        entry!(usize),
        entry!(isize),
        entry!(f32),
        entry!(f64),
        entry!(char),
        entry!(String),
        entry!(()),
        entry!(Vec<u8>),
        entry!(Vec<u16>),
        entry!(Vec<u32>),
        entry!(Vec<u64>),
        entry!(Vec<i64>),
        entry!(Vec<u128>),
        entry!(Vec<bool>),
        entry!(Vec<char>),
        entry!(Vec<f32>),
        entry!(Vec<usize>),
        entry!(Vec<String>),
        entry!(Vec<()>),
        entry!(Vec<(u8, u8)>),
        entry!(Vec<(u16, u32)>),
        entry!(Vec<(u32, u32, u32)>),
        entry!(Vec<[u8; 3]>),
        // 3-tuples rustc lays out in a different order than declared (small, big, small)
        entry!(Vec<(u8, u16, u8)>),
        entry!(Vec<(u16, u32, u16)>),
        entry!(Vec<(f32, f64, f32)>),
        entry!(Vec<(u8, u32, [u8; 3])>),
        entry!(Vec<(u32, u8, u8)>),
        entry!(Box<[(u8, u8, u16)]>),
        entry!(Vec<(u64, u32)>),
        entry!(Vec<Option<u32>>),
        entry!(Vec<Vec<u8>>),
        entry!(Vec<Arc<str>>),
        entry!(VecDeque<u32>),
        entry!(VecDeque<String>),
        entry!(VecDeque<()>),
        entry!(BinaryHeap<u32>),
        entry!(BinaryHeap<String>),
        entry!(BTreeSet<u32>),
        entry!(BTreeSet<String>),
        entry!(HashSet<u32>),
        entry!(HashSet<String>),
        entry!(FxSet<String>),
        entry!(indexmap::IndexSet<u32>),
        entry!(BTreeMap<u32, String>),
        entry!(BTreeMap<String, Vec<u32>>),
        entry!(HashMap<u32, u32>),
        entry!(HashMap<String, String>),
        entry!(HashMap<u32, Vec<u32>>),
        entry!(FxMap<u32, String>),
        entry!(indexmap::IndexMap<u32, String>),
        entry!(indexmap::IndexMap<String, u64>),
        entry!(Option<u32>),
        entry!(Option<String>),
        entry!(Option<Option<u8>>),
        entry!(Result<u32, String>),
        entry!(Result<String, u8>),
        entry!(Result<Vec<u8>, ()>),
        entry!(Box<u32>),
        entry!(Rc<String>),
        entry!(Arc<u64>),
        entry!(Box<[u8]>),
        entry!(Box<[u32]>),
        entry!(Box<[String]>),
        entry!(Arc<[u8]>),
        entry!(Arc<[u16]>),
        entry!(Arc<[String]>),
        entry!(Arc<str>),
        entry!([u8; 0]),
        entry!([u8; 1]),
        entry!([u8; 7]),
        entry!([u32; 4]),
        // same length, different element type (near misses for the schema gate)
        entry!([u8; 4]),
        entry!([u16; 4]),
        entry!([i32; 4]),
        entry!([f32; 4]),
        entry!([u64; 4]),
        entry!([u8; 10001]),
        entry!([[u16; 2]; 2]),
        entry!(Vec<Option<[u16; 3]>>),
        entry!(Vec<Option<[u64; 3]>>),
        entry!((u8, u16, u8)),
        entry!((u16, u32, u16)),
        entry!([String; 2]),
        entry!([bool; 3]),
        entry!([(u8, u8); 2]),
        entry!([[u8; 2]; 2]),
        entry!((u8,)),
        entry!((u32, u32)),
        entry!((u8, u32)),
        entry!((String, u8, bool)),
        entry!((u16, u16, u16)),
        entry!(std::ops::Range<u32>),
        entry!(std::cell::Cell<u32>, nointro),
        entry!(std::cell::RefCell<String>),
        entry!(std::sync::Mutex<u32>),
        entry!(parking_lot::Mutex<String>),
        entry!(parking_lot::RwLock<Vec<u8>>),
        entry!(std::borrow::Cow<'static, str>),
        entry!(std::marker::PhantomData<String>),
        entry!(smallvec::SmallVec<[u8; 4]>),
        entry!(smallvec::SmallVec<[String; 2]>),
        entry!(arrayvec::ArrayVec<u8, 4>),
        entry!(arrayvec::ArrayVec<u32, 3>),
        entry!(arrayvec::ArrayVec<String, 2>),
        entry!(arrayvec::ArrayString<4>),
        entry!(arrayvec::ArrayString<16>),
        entry!(bit_vec::BitVec),
        entry!(bit_vec08::BitVec),
        entry!(bit_set::BitSet),
        entry!(bit_set08::BitSet),
        entry!(std::sync::atomic::AtomicBool),
        entry!(std::sync::atomic::AtomicU8),
        entry!(std::sync::atomic::AtomicI16),
        entry!(std::sync::atomic::AtomicU32),
        entry!(std::sync::atomic::AtomicI64),
        entry!(std::sync::atomic::AtomicUsize),
        entry!(std::time::Duration),
        entry!(std::time::SystemTime),
        entry!(std::net::IpAddr),
        entry!(std::net::SocketAddr),
        entry!(std::path::PathBuf),
        entry!(std::io::Error, nointro),
        entry!(chrono::DateTime<chrono::Utc>),
        entry!(savefile::Canary1),
        entry!(Vec<savefile::Canary1>),
        entry!((Vec<savefile::Canary1>, u32)),
    ];
    for e in v.iter_mut() {
        e.tags = &["library"];
    }
    v
}

pub struct Registry {
    pub types: Vec<TypeEntry>,
    pub families: Vec<Family>,
    pub zoo_label: String,
}

/// All standalone types: library + generated zoo (+ extra generated zoo when compiled in)
pub fn registry() -> Registry {
    let mut types = library_entries();
    types.extend(crate::zoo::entries());
    let mut families = crate::zoo::families();
    #[allow(unused_mut)]
    let mut label = "committed zoo (gen/zoo.py --seed 0)".to_string();
    #[cfg(feature = "extra_zoo")]
    {
        types.extend(crate::zoo_extra::entries());
        families.extend(crate::zoo_extra::families());
        label.push_str(" + fresh zoo");
    }
    Registry { types, families, zoo_label: label }
}
