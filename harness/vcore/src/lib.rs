pub mod model;
pub mod ops;
pub mod registry;
pub mod stdimpls;
pub use vutil::util;
pub mod zoo;
#[cfg(feature = "extra_zoo")]
pub mod zoo_extra;
