//! `Model` implementations for the library-supported std / third-party types.
//! Each impl states the wire shape as documented, and converts between the
//! concrete Rust value and the dynamic `Val` tree.

use crate::model::{FieldShape, SeqKind, Shape, Val, VariantShape};
use std::collections::{BTreeMap, BTreeSet, BinaryHeap, HashMap, HashSet, VecDeque};
use std::hash::Hash;
use std::net::{IpAddr, Ipv4Addr, Ipv6Addr, SocketAddr, SocketAddrV4, SocketAddrV6};
use std::rc::Rc;
use std::sync::Arc;
use std::time::{Duration, SystemTime};

pub trait Model: Sized + 'static {
    fn shape() -> Shape;
    fn to_val(&self) -> Val;
    fn from_val(v: &Val) -> Self;
    /// Rust spelling of the type (for reports)
    fn type_name() -> String {
        std::any::type_name::<Self>().to_string()
    }
    /// Number of collection elements (with non-empty wire encoding) this value claims to hold,
    /// computed from lengths only. Elements are visited only while the running total stays
    /// at or below `limit`, so an absurd length is reported without touching its elements.
    fn claim(&self, _limit: u128) -> u128 {
        0
    }
    /// Are all bool / char / enum-tag bit patterns inside this value valid? Read through raw
    /// integer loads so that an invalid pattern is observed rather than acted upon.
    fn valid_bits(&self) -> bool {
        true
    }
}

/// true if every value of this shape occupies at least one byte on the wire at every version
pub fn nonempty_wire(s: &Shape) -> bool {
    let mv = crate::model::max_version(s);
    (0..=mv).all(|v| crate::model::min_size(s, v) > 0)
}

thread_local! {
    /// total number of collection elements (including zero-sized ones) seen by `claim` since the
    /// last reset: lets the caller avoid walking values that are legitimately huge (Vec<()>)
    pub static TOTAL_ELEMS: std::cell::Cell<u128> = std::cell::Cell::new(0);
}
pub const WALK_CAP: u128 = 2_000_000;

pub fn claim_iter<'a, T: Model + 'a>(len: usize, items: impl Iterator<Item = &'a T>, limit: u128) -> u128 {
    let mut total: u128 = if nonempty_wire(&T::shape()) { len as u128 } else { 0 };
    let seen = TOTAL_ELEMS.with(|c| {
        c.set(c.get().saturating_add(len as u128));
        c.get()
    });
    if total > limit || seen > WALK_CAP {
        return total;
    }
    for it in items {
        total = total.saturating_add(it.claim(limit));
        if total > limit {
            break;
        }
    }
    total
}

#[track_caller]
pub fn mismatch<T>(what: &str, v: &Val) -> T {
    panic!("HARNESS BUG: from_val mismatch for {}: {:?}", what, v)
}

macro_rules! uint_model {
    ($t:ty, $s:ident) => {
        impl Model for $t {
            fn shape() -> Shape {
                Shape::$s
            }
            fn to_val(&self) -> Val {
                Val::U(*self as u128)
            }
            fn from_val(v: &Val) -> Self {
                match v {
                    Val::U(x) => *x as $t,
                    _ => mismatch(stringify!($t), v),
                }
            }
        }
    };
}
macro_rules! sint_model {
    ($t:ty, $s:ident) => {
        impl Model for $t {
            fn shape() -> Shape {
                Shape::$s
            }
            fn to_val(&self) -> Val {
                Val::I(*self as i128)
            }
            fn from_val(v: &Val) -> Self {
                match v {
                    Val::I(x) => *x as $t,
                    _ => mismatch(stringify!($t), v),
                }
            }
        }
    };
}
uint_model!(u8, U8);
uint_model!(u16, U16);
uint_model!(u32, U32);
uint_model!(u64, U64);
uint_model!(u128, U128);
uint_model!(usize, USize);
sint_model!(i8, I8);
sint_model!(i16, I16);
sint_model!(i32, I32);
sint_model!(i64, I64);
sint_model!(i128, I128);
sint_model!(isize, ISize);

impl Model for bool {
    fn shape() -> Shape {
        Shape::Bool
    }
    fn valid_bits(&self) -> bool {
        let raw = unsafe { std::ptr::read_volatile(self as *const bool as *const u8) };
        raw <= 1
    }
    fn to_val(&self) -> Val {
        Val::Bool(*self)
    }
    fn from_val(v: &Val) -> Self {
        match v {
            Val::Bool(b) => *b,
            _ => mismatch("bool", v),
        }
    }
}
impl Model for f32 {
    fn shape() -> Shape {
        Shape::F32
    }
    fn to_val(&self) -> Val {
        Val::F32(self.to_bits())
    }
    fn from_val(v: &Val) -> Self {
        match v {
            Val::F32(b) => f32::from_bits(*b),
            _ => mismatch("f32", v),
        }
    }
}
impl Model for f64 {
    fn shape() -> Shape {
        Shape::F64
    }
    fn to_val(&self) -> Val {
        Val::F64(self.to_bits())
    }
    fn from_val(v: &Val) -> Self {
        match v {
            Val::F64(b) => f64::from_bits(*b),
            _ => mismatch("f64", v),
        }
    }
}
impl Model for char {
    fn shape() -> Shape {
        Shape::Char
    }
    fn valid_bits(&self) -> bool {
        let raw = unsafe { std::ptr::read_volatile(self as *const char as *const u32) };
        char::from_u32(raw).is_some()
    }
    fn to_val(&self) -> Val {
        Val::Char(*self as u32)
    }
    fn from_val(v: &Val) -> Self {
        match v {
            Val::Char(c) => char::from_u32(*c).unwrap(),
            _ => mismatch("char", v),
        }
    }
}
impl Model for String {
    fn shape() -> Shape {
        Shape::Str
    }
    fn claim(&self, _limit: u128) -> u128 {
        self.len() as u128
    }
    fn to_val(&self) -> Val {
        Val::Str(self.clone())
    }
    fn from_val(v: &Val) -> Self {
        match v {
            Val::Str(s) => s.clone(),
            _ => mismatch("String", v),
        }
    }
}
impl Model for () {
    fn shape() -> Shape {
        Shape::Unit
    }
    fn to_val(&self) -> Val {
        Val::Unit
    }
    fn from_val(_v: &Val) -> Self {}
}
impl<T: 'static> Model for std::marker::PhantomData<T> {
    fn shape() -> Shape {
        Shape::Unit
    }
    fn to_val(&self) -> Val {
        Val::Unit
    }
    fn from_val(_v: &Val) -> Self {
        std::marker::PhantomData
    }
}

fn seq_items<'a>(what: &str, v: &'a Val) -> &'a Vec<Val> {
    match v {
        Val::Seq(items) => items,
        _ => mismatch(what, v),
    }
}

impl<T: Model> Model for Vec<T> {
    fn shape() -> Shape {
        Shape::Seq(Box::new(T::shape()), SeqKind::List)
    }
    fn claim(&self, limit: u128) -> u128 {
        claim_iter(self.len(), self.iter(), limit)
    }
    fn valid_bits(&self) -> bool {
        self.iter().all(|x| x.valid_bits())
    }
    fn to_val(&self) -> Val {
        Val::Seq(self.iter().map(|x| x.to_val()).collect())
    }
    fn from_val(v: &Val) -> Self {
        seq_items("Vec", v).iter().map(T::from_val).collect()
    }
}
impl<T: Model> Model for VecDeque<T> {
    fn shape() -> Shape {
        Shape::Seq(Box::new(T::shape()), SeqKind::List)
    }
    fn claim(&self, limit: u128) -> u128 {
        claim_iter(self.len(), self.iter(), limit)
    }
    fn valid_bits(&self) -> bool {
        self.iter().all(|x| x.valid_bits())
    }
    fn to_val(&self) -> Val {
        Val::Seq(self.iter().map(|x| x.to_val()).collect())
    }
    fn from_val(v: &Val) -> Self {
        let items = seq_items("VecDeque", v);
        // build a deque whose ring buffer wraps around, when there is something to wrap
        let mut d = VecDeque::with_capacity(items.len() + 2);
        if items.len() >= 2 {
            let half = items.len() / 2;
            for it in &items[half..] {
                d.push_back(T::from_val(it));
            }
            for it in items[..half].iter().rev() {
                d.push_front(T::from_val(it));
            }
        } else {
            for it in items {
                d.push_back(T::from_val(it));
            }
        }
        d
    }
}
impl<T: Model> Model for Box<[T]> {
    fn shape() -> Shape {
        Shape::Seq(Box::new(T::shape()), SeqKind::List)
    }
    fn claim(&self, limit: u128) -> u128 {
        claim_iter(self.len(), self.iter(), limit)
    }
    fn valid_bits(&self) -> bool {
        self.iter().all(|x| x.valid_bits())
    }
    fn to_val(&self) -> Val {
        Val::Seq(self.iter().map(|x| x.to_val()).collect())
    }
    fn from_val(v: &Val) -> Self {
        seq_items("Box<[T]>", v).iter().map(T::from_val).collect::<Vec<T>>().into_boxed_slice()
    }
}
impl<T: Model> Model for Arc<[T]> {
    fn shape() -> Shape {
        Shape::Seq(Box::new(T::shape()), SeqKind::List)
    }
    fn claim(&self, limit: u128) -> u128 {
        claim_iter(self.len(), self.iter(), limit)
    }
    fn valid_bits(&self) -> bool {
        self.iter().all(|x| x.valid_bits())
    }
    fn to_val(&self) -> Val {
        Val::Seq(self.iter().map(|x| x.to_val()).collect())
    }
    fn from_val(v: &Val) -> Self {
        seq_items("Arc<[T]>", v).iter().map(T::from_val).collect::<Vec<T>>().into()
    }
}
impl<T: Model + Ord> Model for BTreeSet<T> {
    fn shape() -> Shape {
        Shape::Seq(Box::new(T::shape()), SeqKind::List)
    }
    fn claim(&self, limit: u128) -> u128 {
        claim_iter(self.len(), self.iter(), limit)
    }
    fn valid_bits(&self) -> bool {
        self.iter().all(|x| x.valid_bits())
    }
    fn to_val(&self) -> Val {
        Val::Seq(self.iter().map(|x| x.to_val()).collect())
    }
    fn from_val(v: &Val) -> Self {
        seq_items("BTreeSet", v).iter().map(T::from_val).collect()
    }
}
impl<T: Model + Ord> Model for BinaryHeap<T> {
    fn shape() -> Shape {
        Shape::Seq(Box::new(T::shape()), SeqKind::Unordered)
    }
    fn claim(&self, limit: u128) -> u128 {
        claim_iter(self.len(), self.iter(), limit)
    }
    fn valid_bits(&self) -> bool {
        self.iter().all(|x| x.valid_bits())
    }
    fn to_val(&self) -> Val {
        let mut items: Vec<Val> = self.iter().map(|x| x.to_val()).collect();
        items.sort();
        Val::Seq(items)
    }
    fn from_val(v: &Val) -> Self {
        seq_items("BinaryHeap", v).iter().map(T::from_val).collect()
    }
}
impl<T: Model + Eq + Hash, S: std::hash::BuildHasher + Default + 'static> Model for HashSet<T, S> {
    fn shape() -> Shape {
        Shape::Seq(Box::new(T::shape()), SeqKind::Unordered)
    }
    fn claim(&self, limit: u128) -> u128 {
        claim_iter(self.len(), self.iter(), limit)
    }
    fn valid_bits(&self) -> bool {
        self.iter().all(|x| x.valid_bits())
    }
    fn to_val(&self) -> Val {
        let mut items: Vec<Val> = self.iter().map(|x| x.to_val()).collect();
        items.sort();
        Val::Seq(items)
    }
    fn from_val(v: &Val) -> Self {
        let mut s = HashSet::with_hasher(S::default());
        for it in seq_items("HashSet", v) {
            s.insert(T::from_val(it));
        }
        s
    }
}
impl<T: Model + Eq + Hash> Model for indexmap::IndexSet<T> {
    fn shape() -> Shape {
        Shape::Seq(Box::new(T::shape()), SeqKind::List)
    }
    fn claim(&self, limit: u128) -> u128 {
        claim_iter(self.len(), self.iter(), limit)
    }
    fn valid_bits(&self) -> bool {
        self.iter().all(|x| x.valid_bits())
    }
    fn to_val(&self) -> Val {
        Val::Seq(self.iter().map(|x| x.to_val()).collect())
    }
    fn from_val(v: &Val) -> Self {
        seq_items("IndexSet", v).iter().map(T::from_val).collect()
    }
}

fn map_items<'a>(what: &str, v: &'a Val) -> &'a Vec<(Val, Val)> {
    match v {
        Val::Map(items) => items,
        _ => mismatch(what, v),
    }
}
impl<K: Model + Ord, V: Model> Model for BTreeMap<K, V> {
    fn shape() -> Shape {
        Shape::Map(Box::new(K::shape()), Box::new(V::shape()), false)
    }
    fn claim(&self, limit: u128) -> u128 {
        let mut total = self.len() as u128;
        if total > limit {
            return total;
        }
        for (k, v) in self.iter() {
            total = total.saturating_add(k.claim(limit)).saturating_add(v.claim(limit));
            if total > limit {
                break;
            }
        }
        total
    }
    fn valid_bits(&self) -> bool {
        self.iter().all(|(k, v)| k.valid_bits() && v.valid_bits())
    }
    fn to_val(&self) -> Val {
        Val::Map(self.iter().map(|(k, v)| (k.to_val(), v.to_val())).collect())
    }
    fn from_val(v: &Val) -> Self {
        map_items("BTreeMap", v).iter().map(|(k, v)| (K::from_val(k), V::from_val(v))).collect()
    }
}
impl<K: Model + Eq + Hash, V: Model, S: std::hash::BuildHasher + Default + 'static> Model for HashMap<K, V, S> {
    fn shape() -> Shape {
        Shape::Map(Box::new(K::shape()), Box::new(V::shape()), true)
    }
    fn claim(&self, limit: u128) -> u128 {
        let mut total = self.len() as u128;
        if total > limit {
            return total;
        }
        for (k, v) in self.iter() {
            total = total.saturating_add(k.claim(limit)).saturating_add(v.claim(limit));
            if total > limit {
                break;
            }
        }
        total
    }
    fn valid_bits(&self) -> bool {
        self.iter().all(|(k, v)| k.valid_bits() && v.valid_bits())
    }
    fn to_val(&self) -> Val {
        let mut items: Vec<(Val, Val)> = self.iter().map(|(k, v)| (k.to_val(), v.to_val())).collect();
        items.sort();
        Val::Map(items)
    }
    fn from_val(v: &Val) -> Self {
        let mut m = HashMap::with_hasher(S::default());
        for (k, val) in map_items("HashMap", v) {
            m.insert(K::from_val(k), V::from_val(val));
        }
        m
    }
}
impl<K: Model + Eq + Hash, V: Model> Model for indexmap::IndexMap<K, V> {
    fn shape() -> Shape {
        Shape::Map(Box::new(K::shape()), Box::new(V::shape()), false)
    }
    fn claim(&self, limit: u128) -> u128 {
        let mut total = self.len() as u128;
        if total > limit {
            return total;
        }
        for (k, v) in self.iter() {
            total = total.saturating_add(k.claim(limit)).saturating_add(v.claim(limit));
            if total > limit {
                break;
            }
        }
        total
    }
    fn valid_bits(&self) -> bool {
        self.iter().all(|(k, v)| k.valid_bits() && v.valid_bits())
    }
    fn to_val(&self) -> Val {
        Val::Map(self.iter().map(|(k, v)| (k.to_val(), v.to_val())).collect())
    }
    fn from_val(v: &Val) -> Self {
        map_items("IndexMap", v).iter().map(|(k, v)| (K::from_val(k), V::from_val(v))).collect()
    }
}

impl<T: Model> Model for Option<T> {
    fn shape() -> Shape {
        Shape::Opt(Box::new(T::shape()))
    }
    fn claim(&self, limit: u128) -> u128 {
        self.as_ref().map(|x| x.claim(limit)).unwrap_or(0)
    }
    fn valid_bits(&self) -> bool {
        self.as_ref().map(|x| x.valid_bits()).unwrap_or(true)
    }
    fn to_val(&self) -> Val {
        match self {
            None => Val::None,
            Some(x) => Val::Some(Box::new(x.to_val())),
        }
    }
    fn from_val(v: &Val) -> Self {
        match v {
            Val::None => None,
            Val::Some(x) => Some(T::from_val(x)),
            _ => mismatch("Option", v),
        }
    }
}
impl<T: Model, E: Model> Model for Result<T, E> {
    fn shape() -> Shape {
        Shape::Res(Box::new(T::shape()), Box::new(E::shape()))
    }
    fn claim(&self, limit: u128) -> u128 {
        match self {
            Ok(x) => x.claim(limit),
            Err(x) => x.claim(limit),
        }
    }
    fn valid_bits(&self) -> bool {
        match self {
            Ok(x) => x.valid_bits(),
            Err(x) => x.valid_bits(),
        }
    }
    fn to_val(&self) -> Val {
        match self {
            Ok(x) => Val::Ok(Box::new(x.to_val())),
            Err(x) => Val::Err(Box::new(x.to_val())),
        }
    }
    fn from_val(v: &Val) -> Self {
        match v {
            Val::Ok(x) => Ok(T::from_val(x)),
            Val::Err(x) => Err(E::from_val(x)),
            _ => mismatch("Result", v),
        }
    }
}

macro_rules! transparent {
    ($w:ident, $new:expr, $get:expr, $claim:expr, $valid:expr) => {
        impl<T: Model> Model for $w<T> {
            fn shape() -> Shape {
                T::shape()
            }
            fn to_val(&self) -> Val {
                let f: fn(&$w<T>) -> Val = $get;
                f(self)
            }
            fn from_val(v: &Val) -> Self {
                let f: fn(T) -> $w<T> = $new;
                f(T::from_val(v))
            }
            fn claim(&self, limit: u128) -> u128 {
                let f: fn(&$w<T>, u128) -> u128 = $claim;
                f(self, limit)
            }
            fn valid_bits(&self) -> bool {
                // claim closures borrow the inner value; reuse that access path with a zero limit
                let f: fn(&$w<T>) -> bool = $valid;
                f(self)
            }
        }
    };
}
transparent!(Box, Box::new, |x| (**x).to_val(), |x, l| (**x).claim(l), |x| (**x).valid_bits());
transparent!(Rc, Rc::new, |x| (**x).to_val(), |x, l| (**x).claim(l), |x| (**x).valid_bits());
transparent!(Arc, Arc::new, |x| (**x).to_val(), |x, l| (**x).claim(l), |x| (**x).valid_bits());
use std::cell::{Cell, RefCell};
transparent!(RefCell, RefCell::new, |x| x.borrow().to_val(), |x, l| x.borrow().claim(l), |x| x.borrow().valid_bits());
impl<T: Model + Copy> Model for Cell<T> {
    fn shape() -> Shape {
        T::shape()
    }
    fn to_val(&self) -> Val {
        self.get().to_val()
    }
    fn from_val(v: &Val) -> Self {
        Cell::new(T::from_val(v))
    }
}
type StdMutex<T> = std::sync::Mutex<T>;
transparent!(StdMutex, std::sync::Mutex::new, |x| x.lock().unwrap().to_val(), |x, l| x.lock().unwrap().claim(l), |x| x.lock().unwrap().valid_bits());
type PlMutex<T> = parking_lot::Mutex<T>;
transparent!(PlMutex, parking_lot::Mutex::new, |x| x.lock().to_val(), |x, l| x.lock().claim(l), |x| x.lock().valid_bits());
type PlRwLock<T> = parking_lot::RwLock<T>;
transparent!(PlRwLock, parking_lot::RwLock::new, |x| x.read().to_val(), |x, l| x.read().claim(l), |x| x.read().valid_bits());

impl Model for Arc<str> {
    fn shape() -> Shape {
        Shape::Str
    }
    fn to_val(&self) -> Val {
        Val::Str(self.to_string())
    }
    fn from_val(v: &Val) -> Self {
        match v {
            Val::Str(s) => Arc::from(s.as_str()),
            _ => mismatch("Arc<str>", v),
        }
    }
}
impl Model for std::borrow::Cow<'static, str> {
    fn shape() -> Shape {
        Shape::Str
    }
    fn to_val(&self) -> Val {
        Val::Str(self.to_string())
    }
    fn from_val(v: &Val) -> Self {
        match v {
            Val::Str(s) => std::borrow::Cow::Owned(s.clone()),
            _ => mismatch("Cow<str>", v),
        }
    }
}
impl Model for std::path::PathBuf {
    fn shape() -> Shape {
        Shape::Str
    }
    fn to_val(&self) -> Val {
        Val::Str(self.to_string_lossy().to_string())
    }
    fn from_val(v: &Val) -> Self {
        match v {
            Val::Str(s) => std::path::PathBuf::from(s),
            _ => mismatch("PathBuf", v),
        }
    }
}

impl<T: Model, const N: usize> Model for [T; N] {
    fn shape() -> Shape {
        Shape::Array(N, Box::new(T::shape()))
    }
    fn claim(&self, limit: u128) -> u128 {
        // the length of an array is fixed by the type, not declared by the input: only lengths inside
        // the elements count (nested arrays would otherwise be counted once per level)
        let mut total = 0u128;
        for it in self.iter() {
            total = total.saturating_add(it.claim(limit));
            if total > limit {
                break;
            }
        }
        total
    }
    fn valid_bits(&self) -> bool {
        self.iter().all(|x| x.valid_bits())
    }
    fn to_val(&self) -> Val {
        Val::Seq(self.iter().map(|x| x.to_val()).collect())
    }
    fn from_val(v: &Val) -> Self {
        let items = seq_items("array", v);
        assert_eq!(items.len(), N, "HARNESS BUG: array length");
        let vec: Vec<T> = items.iter().map(T::from_val).collect();
        match vec.try_into() {
            Ok(a) => a,
            Err(_) => unreachable!(),
        }
    }
}

fn tuple_items<'a>(n: usize, v: &'a Val) -> &'a Vec<Val> {
    match v {
        Val::Tuple(items) if items.len() == n => items,
        _ => mismatch("tuple", v),
    }
}
impl<A: Model> Model for (A,) {
    fn shape() -> Shape {
        Shape::Tuple(vec![A::shape()])
    }
    fn to_val(&self) -> Val {
        Val::Tuple(vec![self.0.to_val()])
    }
    fn from_val(v: &Val) -> Self {
        let i = tuple_items(1, v);
        (A::from_val(&i[0]),)
    }
}
impl<A: Model, B: Model> Model for (A, B) {
    fn shape() -> Shape {
        Shape::Tuple(vec![A::shape(), B::shape()])
    }
    fn claim(&self, limit: u128) -> u128 {
        self.0.claim(limit).saturating_add(self.1.claim(limit))
    }
    fn valid_bits(&self) -> bool {
        self.0.valid_bits() && self.1.valid_bits()
    }
    fn to_val(&self) -> Val {
        Val::Tuple(vec![self.0.to_val(), self.1.to_val()])
    }
    fn from_val(v: &Val) -> Self {
        let i = tuple_items(2, v);
        (A::from_val(&i[0]), B::from_val(&i[1]))
    }
}
impl<A: Model, B: Model, C: Model> Model for (A, B, C) {
    fn shape() -> Shape {
        Shape::Tuple(vec![A::shape(), B::shape(), C::shape()])
    }
    fn claim(&self, limit: u128) -> u128 {
        self.0.claim(limit).saturating_add(self.1.claim(limit)).saturating_add(self.2.claim(limit))
    }
    fn valid_bits(&self) -> bool {
        self.0.valid_bits() && self.1.valid_bits() && self.2.valid_bits()
    }
    fn to_val(&self) -> Val {
        Val::Tuple(vec![self.0.to_val(), self.1.to_val(), self.2.to_val()])
    }
    fn from_val(v: &Val) -> Self {
        let i = tuple_items(3, v);
        (A::from_val(&i[0]), B::from_val(&i[1]), C::from_val(&i[2]))
    }
}
impl<T: Model> Model for std::ops::Range<T> {
    fn shape() -> Shape {
        Shape::Tuple(vec![T::shape(), T::shape()])
    }
    fn to_val(&self) -> Val {
        Val::Tuple(vec![self.start.to_val(), self.end.to_val()])
    }
    fn from_val(v: &Val) -> Self {
        let i = tuple_items(2, v);
        T::from_val(&i[0])..T::from_val(&i[1])
    }
}

impl<A: smallvec::Array + 'static> Model for smallvec::SmallVec<A>
where
    A::Item: Model,
{
    fn shape() -> Shape {
        Shape::Seq(Box::new(<A::Item as Model>::shape()), SeqKind::List)
    }
    fn claim(&self, limit: u128) -> u128 {
        claim_iter(self.len(), self.iter(), limit)
    }
    fn valid_bits(&self) -> bool {
        self.iter().all(|x| x.valid_bits())
    }
    fn to_val(&self) -> Val {
        Val::Seq(self.iter().map(|x| x.to_val()).collect())
    }
    fn from_val(v: &Val) -> Self {
        seq_items("SmallVec", v).iter().map(<A::Item as Model>::from_val).collect()
    }
}
impl<T: Model, const C: usize> Model for arrayvec::ArrayVec<T, C> {
    fn shape() -> Shape {
        Shape::Seq(Box::new(T::shape()), SeqKind::Cap(C))
    }
    fn claim(&self, limit: u128) -> u128 {
        claim_iter(self.len(), self.iter(), limit)
    }
    fn valid_bits(&self) -> bool {
        self.iter().all(|x| x.valid_bits())
    }
    fn to_val(&self) -> Val {
        Val::Seq(self.iter().map(|x| x.to_val()).collect())
    }
    fn from_val(v: &Val) -> Self {
        let mut a = arrayvec::ArrayVec::new();
        for it in seq_items("ArrayVec", v) {
            a.push(T::from_val(it));
        }
        a
    }
}
impl<const C: usize> Model for arrayvec::ArrayString<C> {
    fn shape() -> Shape {
        Shape::StrCap(C)
    }
    fn to_val(&self) -> Val {
        Val::Str(self.as_str().to_string())
    }
    fn from_val(v: &Val) -> Self {
        match v {
            Val::Str(s) => arrayvec::ArrayString::from(s).unwrap(),
            _ => mismatch("ArrayString", v),
        }
    }
}

fn bits_of<'a>(what: &str, v: &'a Val) -> &'a Vec<bool> {
    match v {
        Val::Bits(b) => b,
        _ => mismatch(what, v),
    }
}
impl Model for bit_vec::BitVec {
    fn shape() -> Shape {
        Shape::BitVec
    }
    fn claim(&self, _limit: u128) -> u128 {
        (self.len() / 8) as u128
    }
    fn to_val(&self) -> Val {
        Val::Bits(self.iter().collect())
    }
    fn from_val(v: &Val) -> Self {
        let bits = bits_of("BitVec", v);
        let mut b = bit_vec::BitVec::new();
        for x in bits {
            b.push(*x);
        }
        b
    }
}
impl Model for bit_vec08::BitVec {
    fn shape() -> Shape {
        Shape::BitVec
    }
    fn claim(&self, _limit: u128) -> u128 {
        (self.len() / 8) as u128
    }
    fn to_val(&self) -> Val {
        Val::Bits(self.iter().collect())
    }
    fn from_val(v: &Val) -> Self {
        let bits = bits_of("BitVec08", v);
        let mut b = bit_vec08::BitVec::new();
        for x in bits {
            b.push(*x);
        }
        b
    }
}
impl Model for bit_set::BitSet {
    fn shape() -> Shape {
        Shape::BitVec
    }
    fn to_val(&self) -> Val {
        Val::Bits(self.get_ref().iter().collect())
    }
    fn from_val(v: &Val) -> Self {
        bit_set::BitSet::from_bit_vec(<bit_vec::BitVec as Model>::from_val(v))
    }
}
impl Model for bit_set08::BitSet {
    fn shape() -> Shape {
        Shape::BitVec
    }
    fn to_val(&self) -> Val {
        Val::Bits(self.get_ref().iter().collect())
    }
    fn from_val(v: &Val) -> Self {
        bit_set08::BitSet::from_bit_vec(<bit_vec08::BitVec as Model>::from_val(v))
    }
}

macro_rules! atomic_u {
    ($t:ty, $s:ident, $inner:ty) => {
        impl Model for $t {
            fn shape() -> Shape {
                Shape::$s
            }
            fn to_val(&self) -> Val {
                Val::U(self.load(std::sync::atomic::Ordering::SeqCst) as u128)
            }
            fn from_val(v: &Val) -> Self {
                <$t>::new(<$inner as Model>::from_val(v))
            }
        }
    };
}
macro_rules! atomic_i {
    ($t:ty, $s:ident, $inner:ty) => {
        impl Model for $t {
            fn shape() -> Shape {
                Shape::$s
            }
            fn to_val(&self) -> Val {
                Val::I(self.load(std::sync::atomic::Ordering::SeqCst) as i128)
            }
            fn from_val(v: &Val) -> Self {
                <$t>::new(<$inner as Model>::from_val(v))
            }
        }
    };
}
use std::sync::atomic::*;
atomic_u!(AtomicU8, U8, u8);
atomic_u!(AtomicU16, U16, u16);
atomic_u!(AtomicU32, U32, u32);
atomic_u!(AtomicU64, U64, u64);
atomic_u!(AtomicUsize, USize, usize);
atomic_i!(AtomicI8, I8, i8);
atomic_i!(AtomicI16, I16, i16);
atomic_i!(AtomicI32, I32, i32);
atomic_i!(AtomicI64, I64, i64);
atomic_i!(AtomicIsize, ISize, isize);
impl Model for AtomicBool {
    fn shape() -> Shape {
        Shape::Bool
    }
    fn to_val(&self) -> Val {
        Val::Bool(self.load(Ordering::SeqCst))
    }
    fn from_val(v: &Val) -> Self {
        AtomicBool::new(bool::from_val(v))
    }
}

impl Model for Duration {
    fn shape() -> Shape {
        Shape::Duration
    }
    fn to_val(&self) -> Val {
        Val::U(self.as_nanos())
    }
    fn from_val(v: &Val) -> Self {
        match v {
            Val::U(x) => Duration::new((*x / 1_000_000_000) as u64, (*x % 1_000_000_000) as u32),
            _ => mismatch("Duration", v),
        }
    }
}
impl Model for SystemTime {
    fn shape() -> Shape {
        Shape::SysTime
    }
    fn to_val(&self) -> Val {
        match self.duration_since(SystemTime::UNIX_EPOCH) {
            Ok(d) => Val::U(d.as_nanos()),
            Err(e) => Val::U(e.duration().as_nanos() | (1u128 << 127)),
        }
    }
    fn from_val(v: &Val) -> Self {
        match v {
            Val::U(x) => {
                let mag = x & ((1u128 << 127) - 1);
                let d = Duration::new((mag / 1_000_000_000) as u64, (mag % 1_000_000_000) as u32);
                if x >> 127 != 0 {
                    SystemTime::UNIX_EPOCH - d
                } else {
                    SystemTime::UNIX_EPOCH + d
                }
            }
            _ => mismatch("SystemTime", v),
        }
    }
}
impl Model for chrono::DateTime<chrono::Utc> {
    fn shape() -> Shape {
        Shape::Timestamp
    }
    fn to_val(&self) -> Val {
        Val::I(self.timestamp_nanos_opt().expect("in range") as i128)
    }
    fn from_val(v: &Val) -> Self {
        match v {
            Val::I(x) => chrono::DateTime::<chrono::Utc>::from_timestamp_nanos(*x as i64),
            _ => mismatch("DateTime", v),
        }
    }
}
impl Model for savefile::Canary1 {
    fn shape() -> Shape {
        Shape::Canary
    }
    fn to_val(&self) -> Val {
        Val::Unit
    }
    fn from_val(_v: &Val) -> Self {
        savefile::Canary1::new()
    }
}

fn fs(name: &str, s: Shape) -> FieldShape {
    FieldShape::plain(name, s)
}
fn var<'a>(v: &'a Val) -> (&'a str, &'a Vec<(String, Val)>) {
    match v {
        Val::Var(n, f) => (n.as_str(), f),
        _ => mismatch("enum", v),
    }
}
fn fu(f: &[(String, Val)], i: usize) -> u128 {
    match &f[i].1 {
        Val::U(x) => *x,
        o => mismatch("uint field", o),
    }
}
impl Model for IpAddr {
    fn shape() -> Shape {
        Shape::Enum(
            "IpAddr".into(),
            1,
            vec![
                VariantShape { name: "V4".into(), from: 0, discr: 0, fields: vec![fs("0", Shape::U32)] },
                VariantShape { name: "V6".into(), from: 0, discr: 1, fields: vec![fs("0", Shape::U128)] },
            ],
        )
    }
    fn to_val(&self) -> Val {
        match self {
            IpAddr::V4(a) => Val::Var("V4".into(), vec![("0".into(), Val::U(u32::from(*a) as u128))]),
            IpAddr::V6(a) => Val::Var("V6".into(), vec![("0".into(), Val::U(u128::from(*a)))]),
        }
    }
    fn from_val(v: &Val) -> Self {
        let (n, f) = var(v);
        match n {
            "V4" => IpAddr::V4(Ipv4Addr::from(fu(f, 0) as u32)),
            _ => IpAddr::V6(Ipv6Addr::from(fu(f, 0))),
        }
    }
}
impl Model for SocketAddr {
    fn shape() -> Shape {
        Shape::Enum(
            "SocketAddr".into(),
            1,
            vec![
                VariantShape { name: "V4".into(), from: 0, discr: 0, fields: vec![fs("port", Shape::U16), fs("ip", Shape::U32)] },
                VariantShape {
                    name: "V6".into(),
                    from: 0,
                    discr: 1,
                    fields: vec![fs("port", Shape::U16), fs("ip", Shape::U128), fs("flowinfo", Shape::U32), fs("scope_id", Shape::U32)],
                },
            ],
        )
    }
    fn to_val(&self) -> Val {
        match self {
            SocketAddr::V4(a) => Val::Var(
                "V4".into(),
                vec![("port".into(), Val::U(a.port() as u128)), ("ip".into(), Val::U(u32::from(*a.ip()) as u128))],
            ),
            SocketAddr::V6(a) => Val::Var(
                "V6".into(),
                vec![
                    ("port".into(), Val::U(a.port() as u128)),
                    ("ip".into(), Val::U(u128::from(*a.ip()))),
                    ("flowinfo".into(), Val::U(a.flowinfo() as u128)),
                    ("scope_id".into(), Val::U(a.scope_id() as u128)),
                ],
            ),
        }
    }
    fn from_val(v: &Val) -> Self {
        let (n, f) = var(v);
        match n {
            "V4" => SocketAddr::V4(SocketAddrV4::new(Ipv4Addr::from(fu(f, 1) as u32), fu(f, 0) as u16)),
            _ => SocketAddr::V6(SocketAddrV6::new(Ipv6Addr::from(fu(f, 1)), fu(f, 0) as u16, fu(f, 2) as u32, fu(f, 3) as u32)),
        }
    }
}

/// io::Error has no PartialEq; wrap it so that the harness can treat it like other values.
pub fn io_kind_from_code(code: u16) -> std::io::ErrorKind {
    use std::io::ErrorKind::*;
    match code {
        1 => NotFound,
        2 => PermissionDenied,
        3 => ConnectionRefused,
        4 => ConnectionReset,
        7 => ConnectionAborted,
        8 => NotConnected,
        9 => AddrInUse,
        10 => AddrNotAvailable,
        12 => BrokenPipe,
        13 => AlreadyExists,
        14 => WouldBlock,
        21 => InvalidInput,
        22 => InvalidData,
        23 => TimedOut,
        24 => WriteZero,
        36 => Interrupted,
        37 => Unsupported,
        38 => UnexpectedEof,
        39 => OutOfMemory,
        _ => Other,
    }
}
pub fn io_code_from_kind(k: std::io::ErrorKind) -> u16 {
    use std::io::ErrorKind::*;
    match k {
        NotFound => 1,
        PermissionDenied => 2,
        ConnectionRefused => 3,
        ConnectionReset => 4,
        ConnectionAborted => 7,
        NotConnected => 8,
        AddrInUse => 9,
        AddrNotAvailable => 10,
        BrokenPipe => 12,
        AlreadyExists => 13,
        WouldBlock => 14,
        InvalidInput => 21,
        InvalidData => 22,
        TimedOut => 23,
        WriteZero => 24,
        Interrupted => 36,
        Unsupported => 37,
        UnexpectedEof => 38,
        OutOfMemory => 39,
        Other => 40,
        _ => 42,
    }
}
impl Model for std::io::Error {
    fn shape() -> Shape {
        Shape::IoError
    }
    fn to_val(&self) -> Val {
        Val::Tuple(vec![Val::U(io_code_from_kind(self.kind()) as u128), Val::Str(self.to_string())])
    }
    fn from_val(v: &Val) -> Self {
        let i = tuple_items(2, v);
        let code = match &i[0] {
            Val::U(x) => *x as u16,
            o => mismatch("io kind", o),
        };
        let msg = match &i[1] {
            Val::Str(s) => s.clone(),
            o => mismatch("io msg", o),
        };
        std::io::Error::new(io_kind_from_code(code), msg)
    }
}
