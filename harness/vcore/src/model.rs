//! Executable reference model of the documented savefile wire format.
//!
//! Nothing in this file calls into `savefile`. `Shape` is this harness' own
//! description of a type's wire layout (with version ranges on fields), `Val`
//! is a dynamic value tree, and `encode` / `decode` implement the format as
//! documented: little-endian fixed-width primitives, usize/isize as 64 bit,
//! bool as one byte 0/1, char as u32, u64 length prefixed strings / sequences /
//! maps, one byte option tag (1=Some) and result tag (1=Ok), struct fields in
//! declaration order filtered by version range, enum discriminant = variant
//! index in the declared width, arrays/tuples unprefixed, wrappers transparent.

use crate::util::Rng;

#[derive(Clone, Debug, PartialEq, Eq, PartialOrd, Ord, Hash)]
pub enum Val {
    Unit,
    Bool(bool),
    U(u128),
    I(i128),
    F32(u32),
    F64(u64),
    Char(u32),
    Str(String),
    Seq(Vec<Val>),
    Map(Vec<(Val, Val)>),
    None,
    Some(Box<Val>),
    Ok(Box<Val>),
    Err(Box<Val>),
    Tuple(Vec<Val>),
    Rec(Vec<(String, Val)>),
    Var(String, Vec<(String, Val)>),
    Bits(Vec<bool>),
}

#[derive(Clone, Copy, Debug, PartialEq, Eq)]
pub enum SeqKind {
    /// order is significant and deterministic (Vec, VecDeque, slices, IndexSet, BTreeSet)
    List,
    /// iteration order is unspecified (HashSet, BinaryHeap): canonical = sorted
    Unordered,
    /// like List but at most `n` elements may be decoded (ArrayVec)
    Cap(usize),
}

#[derive(Clone, Debug, PartialEq)]
pub enum Conv {
    /// value-preserving conversion (From between integer widths)
    Same,
    /// unsigned integer -> its decimal string
    ToStr,
    /// x -> 2*x (named conversion `conv_double`)
    Double,
    /// string -> its byte length as integer
    StrLen,
    /// x -> Some(x)
    WrapSome,
}

#[derive(Clone, Debug, PartialEq)]
pub struct Alt {
    pub from: u32,
    pub to: u32,
    pub shape: Shape,
    pub conv: Conv,
}

#[derive(Clone, Debug, PartialEq)]
pub enum FieldKind {
    Normal,
    /// `Removed<T>`: present on the wire in [from,to], never in memory, cannot be written
    Removed,
    /// `AbiRemoved<T,C>`: as Removed, but writing an old version emits this constructed value
    AbiRemoved(Val),
    /// `#[savefile_ignore]`: in memory only; after load it holds `default`
    Ignored,
}

#[derive(Clone, Debug, PartialEq)]
pub struct FieldShape {
    pub name: String,
    pub shape: Shape,
    pub from: u32,
    pub to: u32,
    pub kind: FieldKind,
    /// value the field takes when absent from the wire (added later / ignored)
    pub default: Val,
    pub alts: Vec<Alt>,
}

impl FieldShape {
    pub fn plain(name: &str, shape: Shape) -> FieldShape {
        FieldShape {
            name: name.to_string(),
            shape,
            from: 0,
            to: u32::MAX,
            kind: FieldKind::Normal,
            default: Val::Unit,
            alts: vec![],
        }
    }
    pub fn on_wire(&self, version: u32) -> bool {
        self.kind != FieldKind::Ignored && version >= self.from && version <= self.to
    }
    pub fn in_memory(&self) -> bool {
        matches!(self.kind, FieldKind::Normal | FieldKind::Ignored)
    }
    pub fn alt_at(&self, version: u32) -> Option<&Alt> {
        if self.kind == FieldKind::Ignored {
            return None;
        }
        self.alts.iter().find(|a| version >= a.from && version <= a.to)
    }
}

#[derive(Clone, Debug, PartialEq)]
pub struct VariantShape {
    pub name: String,
    pub from: u32,
    /// declared discriminant value in memory (equals the index unless explicit discriminants are used);
    /// the wire format uses the index, never this value
    pub discr: i128,
    pub fields: Vec<FieldShape>,
}

#[derive(Clone, Debug, PartialEq)]
pub enum Shape {
    Unit,
    Bool,
    U8,
    U16,
    U32,
    U64,
    U128,
    I8,
    I16,
    I32,
    I64,
    I128,
    USize,
    ISize,
    F32,
    F64,
    Char,
    Str,
    /// string with a capacity in bytes (ArrayString)
    StrCap(usize),
    Seq(Box<Shape>, SeqKind),
    /// (key, value, unordered)
    Map(Box<Shape>, Box<Shape>, bool),
    Opt(Box<Shape>),
    Res(Box<Shape>, Box<Shape>),
    Array(usize, Box<Shape>),
    Tuple(Vec<Shape>),
    Struct(String, Vec<FieldShape>),
    /// (name, discriminant width in bytes, variants)
    Enum(String, u8, Vec<VariantShape>),
    /// bit-vec / bit-set
    BitVec,
    /// u32 magic 0x47566843, no value
    Canary,
    /// u128: nanoseconds, range limited to what std Duration can hold
    Duration,
    /// u128: nanoseconds since epoch, bit 127 = before epoch
    SysTime,
    /// u16 kind code from the documented table + message string
    IoError,
    /// i64 nanoseconds since the epoch (chrono DateTime<Utc>)
    Timestamp,
}

pub const IO_KINDS: [u16; 20] = [1, 2, 3, 4, 7, 8, 9, 10, 12, 13, 14, 21, 22, 23, 24, 36, 37, 38, 39, 40];

#[derive(Clone, Copy, Debug, PartialEq, Eq)]
pub enum MarkKind {
    /// u64 length prefix of a sequence/map; payload = fixed element size if known (0 = variable)
    Len(usize),
    /// u64 length prefix of a string
    StrLen,
    /// option / result tag
    Tag,
    /// enum discriminant (width, number of variants)
    Discr(u8, u32),
    Bool,
    Char,
    /// first byte of a special payload (systime / duration / bitvec header / canary / io kind)
    Special,
}

#[derive(Clone, Copy, Debug)]
pub struct Mark {
    pub offset: usize,
    pub kind: MarkKind,
}

pub struct Encoder<'a> {
    pub out: Vec<u8>,
    pub version: u32,
    pub marks: Option<&'a mut Vec<Mark>>,
    /// alternate prediction used only to recognise a recorded finding: write the declared
    /// discriminant *value* instead of the variant index
    pub raw_discr: bool,
}

impl<'a> Encoder<'a> {
    fn mark(&mut self, kind: MarkKind) {
        let off = self.out.len();
        if let Some(m) = self.marks.as_mut() {
            m.push(Mark { offset: off, kind });
        }
    }
}

fn bad(what: &str, v: &Val, s: &Shape) -> String {
    let mut vs = format!("{:?}", v);
    vs.truncate(120);
    let mut ss = format!("{:?}", s);
    ss.truncate(120);
    format!("model: value/shape mismatch ({}): val={} shape={}", what, vs, ss)
}

fn rec_get<'v>(fields: &'v [(String, Val)], name: &str) -> Option<&'v Val> {
    fields.iter().find(|(n, _)| n == name).map(|(_, v)| v)
}

pub fn encode(v: &Val, s: &Shape, version: u32) -> Result<Vec<u8>, String> {
    let mut e = Encoder { out: vec![], version, marks: None, raw_discr: false };
    enc(&mut e, v, s)?;
    Ok(e.out)
}

/// Encoding with declared discriminant values in place of variant indices (NOT the documented
/// format; used to recognise known finding "raw discriminant in bulk-copied enum").
pub fn encode_raw_discr(v: &Val, s: &Shape, version: u32) -> Result<Vec<u8>, String> {
    let mut e = Encoder { out: vec![], version, marks: None, raw_discr: true };
    enc(&mut e, v, s)?;
    Ok(e.out)
}

pub fn encode_marked(v: &Val, s: &Shape, version: u32) -> Result<(Vec<u8>, Vec<Mark>), String> {
    let mut marks = vec![];
    let out = {
        let mut e = Encoder { out: vec![], version, marks: Some(&mut marks), raw_discr: false };
        enc(&mut e, v, s)?;
        e.out
    };
    Ok((out, marks))
}

fn enc_fields(e: &mut Encoder, vals: &[(String, Val)], fields: &[FieldShape], ctx: &str) -> Result<(), String> {
    for f in fields {
        if !f.on_wire(e.version) {
            if f.alt_at(e.version).is_some() {
                return Err(format!("model: cannot write {}.{} at version {} (type differed then)", ctx, f.name, e.version));
            }
            continue;
        }
        match &f.kind {
            FieldKind::Normal => {
                let Some(v) = rec_get(vals, &f.name) else {
                    return Err(format!("model: missing field {}.{}", ctx, f.name));
                };
                enc(e, v, &f.shape)?;
            }
            FieldKind::AbiRemoved(ctor) => enc(e, ctor, &f.shape)?,
            FieldKind::Removed => {
                return Err(format!("model: cannot write Removed field {}.{} at version {}", ctx, f.name, e.version));
            }
            FieldKind::Ignored => {}
        }
    }
    Ok(())
}

fn enc(e: &mut Encoder, v: &Val, s: &Shape) -> Result<(), String> {
    macro_rules! int {
        ($n:expr, $signed:expr) => {{
            let bytes: [u8; 16] = match (v, $signed) {
                (Val::U(x), false) => x.to_le_bytes(),
                (Val::I(x), true) => x.to_le_bytes(),
                _ => return Err(bad("int", v, s)),
            };
            e.out.extend_from_slice(&bytes[..$n]);
            Ok(())
        }};
    }
    match s {
        Shape::Unit => Ok(()),
        Shape::Bool => match v {
            Val::Bool(b) => {
                e.mark(MarkKind::Bool);
                e.out.push(*b as u8);
                Ok(())
            }
            _ => Err(bad("bool", v, s)),
        },
        Shape::U8 => int!(1, false),
        Shape::U16 => int!(2, false),
        Shape::U32 => int!(4, false),
        Shape::U64 | Shape::USize => int!(8, false),
        Shape::U128 => int!(16, false),
        Shape::I8 => int!(1, true),
        Shape::I16 => int!(2, true),
        Shape::I32 => int!(4, true),
        Shape::I64 | Shape::ISize | Shape::Timestamp => int!(8, true),
        Shape::I128 => int!(16, true),
        Shape::F32 => match v {
            Val::F32(b) => {
                e.out.extend_from_slice(&b.to_le_bytes());
                Ok(())
            }
            _ => Err(bad("f32", v, s)),
        },
        Shape::F64 => match v {
            Val::F64(b) => {
                e.out.extend_from_slice(&b.to_le_bytes());
                Ok(())
            }
            _ => Err(bad("f64", v, s)),
        },
        Shape::Char => match v {
            Val::Char(c) => {
                e.mark(MarkKind::Char);
                e.out.extend_from_slice(&c.to_le_bytes());
                Ok(())
            }
            _ => Err(bad("char", v, s)),
        },
        Shape::Str | Shape::StrCap(_) => match v {
            Val::Str(st) => {
                e.mark(MarkKind::StrLen);
                e.out.extend_from_slice(&(st.len() as u64).to_le_bytes());
                e.out.extend_from_slice(st.as_bytes());
                Ok(())
            }
            _ => Err(bad("str", v, s)),
        },
        Shape::Seq(inner, _) => match v {
            Val::Seq(items) => {
                e.mark(MarkKind::Len(fixed_size(inner, e.version).unwrap_or(0)));
                e.out.extend_from_slice(&(items.len() as u64).to_le_bytes());
                for it in items {
                    enc(e, it, inner)?;
                }
                Ok(())
            }
            _ => Err(bad("seq", v, s)),
        },
        Shape::Map(k, val, _) => match v {
            Val::Map(items) => {
                let fs = match (fixed_size(k, e.version), fixed_size(val, e.version)) {
                    (Some(a), Some(b)) => a + b,
                    _ => 0,
                };
                e.mark(MarkKind::Len(fs));
                e.out.extend_from_slice(&(items.len() as u64).to_le_bytes());
                for (a, b) in items {
                    enc(e, a, k)?;
                    enc(e, b, val)?;
                }
                Ok(())
            }
            _ => Err(bad("map", v, s)),
        },
        Shape::Opt(inner) => match v {
            Val::None => {
                e.mark(MarkKind::Tag);
                e.out.push(0);
                Ok(())
            }
            Val::Some(x) => {
                e.mark(MarkKind::Tag);
                e.out.push(1);
                enc(e, x, inner)
            }
            _ => Err(bad("opt", v, s)),
        },
        Shape::Res(ok, err) => match v {
            Val::Ok(x) => {
                e.mark(MarkKind::Tag);
                e.out.push(1);
                enc(e, x, ok)
            }
            Val::Err(x) => {
                e.mark(MarkKind::Tag);
                e.out.push(0);
                enc(e, x, err)
            }
            _ => Err(bad("res", v, s)),
        },
        Shape::Array(n, inner) => match v {
            Val::Seq(items) if items.len() == *n => {
                for it in items {
                    enc(e, it, inner)?;
                }
                Ok(())
            }
            _ => Err(bad("array", v, s)),
        },
        Shape::Tuple(shapes) => match v {
            Val::Tuple(items) if items.len() == shapes.len() => {
                for (it, sh) in items.iter().zip(shapes.iter()) {
                    enc(e, it, sh)?;
                }
                Ok(())
            }
            _ => Err(bad("tuple", v, s)),
        },
        Shape::Struct(name, fields) => match v {
            Val::Rec(vals) => enc_fields(e, vals, fields, name),
            _ => Err(bad("struct", v, s)),
        },
        Shape::Enum(name, width, variants) => match v {
            Val::Var(vname, vals) => {
                let Some((idx, var)) = variants.iter().enumerate().find(|(_, x)| &x.name == vname) else {
                    return Err(format!("model: unknown variant {}::{}", name, vname));
                };
                if var.from > e.version {
                    return Err(format!("model: variant {}::{} not present in version {}", name, vname, e.version));
                }
                e.mark(MarkKind::Discr(*width, variants.len() as u32));
                let b = if e.raw_discr { (var.discr as i64 as u32).to_le_bytes() } else { (idx as u32).to_le_bytes() };
                e.out.extend_from_slice(&b[..*width as usize]);
                enc_fields(e, vals, &var.fields, name)
            }
            _ => Err(bad("enum", v, s)),
        },
        Shape::BitVec => match v {
            Val::Bits(bits) => {
                e.mark(MarkKind::Special);
                let nwords = (bits.len() + 31) / 32;
                e.out.extend_from_slice(&(bits.len() as u64).to_le_bytes());
                e.out.extend_from_slice(&(((nwords * 4) as u64) | (1u64 << 63)).to_le_bytes());
                let mut words = vec![0u32; nwords];
                for (i, b) in bits.iter().enumerate() {
                    if *b {
                        words[i / 32] |= 1 << (i % 32);
                    }
                }
                for w in words {
                    e.out.extend_from_slice(&w.to_le_bytes());
                }
                Ok(())
            }
            _ => Err(bad("bitvec", v, s)),
        },
        Shape::Canary => {
            e.mark(MarkKind::Special);
            e.out.extend_from_slice(&0x47566843u32.to_le_bytes());
            Ok(())
        }
        Shape::Duration | Shape::SysTime => match v {
            Val::U(x) => {
                e.mark(MarkKind::Special);
                e.out.extend_from_slice(&x.to_le_bytes());
                Ok(())
            }
            _ => Err(bad("time", v, s)),
        },
        Shape::IoError => match v {
            Val::Tuple(items) if items.len() == 2 => {
                e.mark(MarkKind::Special);
                enc(e, &items[0], &Shape::U16)?;
                enc(e, &items[1], &Shape::Str)
            }
            _ => Err(bad("ioerror", v, s)),
        },
    }
}

/// Encoded size if it does not depend on the value.
pub fn fixed_size(s: &Shape, version: u32) -> Option<usize> {
    Some(match s {
        Shape::Unit => 0,
        Shape::Bool | Shape::U8 | Shape::I8 => 1,
        Shape::U16 | Shape::I16 => 2,
        Shape::U32 | Shape::I32 | Shape::F32 | Shape::Char | Shape::Canary => 4,
        Shape::U64 | Shape::I64 | Shape::USize | Shape::ISize | Shape::F64 | Shape::Timestamp => 8,
        Shape::U128 | Shape::I128 | Shape::Duration | Shape::SysTime => 16,
        Shape::Array(n, inner) => n * fixed_size(inner, version)?,
        Shape::Tuple(shapes) => {
            let mut t = 0;
            for sh in shapes {
                t += fixed_size(sh, version)?;
            }
            t
        }
        Shape::Struct(_, fields) => {
            let mut t = 0;
            for f in fields {
                if f.on_wire(version) {
                    t += fixed_size(&f.shape, version)?;
                } else if let Some(a) = f.alt_at(version) {
                    t += fixed_size(&a.shape, version)?;
                }
            }
            t
        }
        Shape::Enum(_, w, variants) => {
            let mut sz: Option<usize> = None;
            for var in variants {
                let mut t = *w as usize;
                for f in &var.fields {
                    if f.on_wire(version) {
                        t += fixed_size(&f.shape, version)?;
                    } else if let Some(a) = f.alt_at(version) {
                        t += fixed_size(&a.shape, version)?;
                    }
                }
                match sz {
                    None => sz = Some(t),
                    Some(x) if x == t => {}
                    _ => return None,
                }
            }
            sz?
        }
        _ => return None,
    })
}

/// Smallest number of bytes any value of this shape occupies on the wire.
pub fn min_size(s: &Shape, version: u32) -> usize {
    match s {
        Shape::Str | Shape::StrCap(_) | Shape::Seq(..) | Shape::Map(..) => 8,
        Shape::Opt(_) => 1,
        Shape::Res(a, b) => 1 + min_size(a, version).min(min_size(b, version)),
        Shape::Array(n, inner) => n * min_size(inner, version),
        Shape::Tuple(shapes) => shapes.iter().map(|x| min_size(x, version)).sum(),
        Shape::Struct(_, fields) => fields
            .iter()
            .map(|f| {
                if f.on_wire(version) {
                    min_size(&f.shape, version)
                } else if let Some(a) = f.alt_at(version) {
                    min_size(&a.shape, version)
                } else {
                    0
                }
            })
            .sum(),
        Shape::Enum(_, w, variants) => {
            *w as usize
                + variants
                    .iter()
                    .map(|v| v.fields.iter().filter(|f| f.on_wire(version)).map(|f| min_size(&f.shape, version)).sum::<usize>())
                    .min()
                    .unwrap_or(0)
        }
        Shape::BitVec => 16,
        Shape::IoError => 10,
        other => fixed_size(other, version).unwrap_or(0),
    }
}

pub struct Decoder<'a> {
    pub data: &'a [u8],
    pub pos: usize,
    pub version: u32,
}

impl<'a> Decoder<'a> {
    fn take(&mut self, n: usize) -> Result<&'a [u8], String> {
        if self.data.len() - self.pos < n {
            return Err(format!("model: short read at {} (need {}, have {})", self.pos, n, self.data.len() - self.pos));
        }
        let s = &self.data[self.pos..self.pos + n];
        self.pos += n;
        Ok(s)
    }
    fn u(&mut self, n: usize) -> Result<u128, String> {
        let b = self.take(n)?;
        let mut buf = [0u8; 16];
        buf[..n].copy_from_slice(b);
        Ok(u128::from_le_bytes(buf))
    }
    fn i(&mut self, n: usize) -> Result<i128, String> {
        let b = self.take(n)?;
        let neg = b[n - 1] & 0x80 != 0;
        let mut buf = if neg { [0xffu8; 16] } else { [0u8; 16] };
        buf[..n].copy_from_slice(b);
        Ok(i128::from_le_bytes(buf))
    }
    fn len(&mut self) -> Result<usize, String> {
        let l = self.u(8)?;
        // every element needs at least zero bytes, but a count larger than the
        // remaining input can never be satisfied for non-ZST elements; the
        // per-shape decoders re-check against min_size.
        usize::try_from(l).map_err(|_| "model: length overflow".to_string())
    }
}

pub fn decode(data: &[u8], s: &Shape, version: u32) -> Result<(Val, usize), String> {
    let mut d = Decoder { data, pos: 0, version };
    let v = dec(&mut d, s)?;
    Ok((v, d.pos))
}

fn apply_conv(c: &Conv, v: Val) -> Result<Val, String> {
    Ok(match c {
        Conv::Same => v,
        Conv::ToStr => match v {
            Val::U(x) => Val::Str(x.to_string()),
            Val::I(x) => Val::Str(x.to_string()),
            o => return Err(format!("model: ToStr on {:?}", o)),
        },
        Conv::Double => match v {
            Val::U(x) => Val::U(x * 2),
            Val::I(x) => Val::I(x * 2),
            o => return Err(format!("model: Double on {:?}", o)),
        },
        Conv::StrLen => match v {
            Val::Str(s) => Val::U(s.len() as u128),
            o => return Err(format!("model: StrLen on {:?}", o)),
        },
        Conv::WrapSome => Val::Some(Box::new(v)),
    })
}

fn dec_fields(d: &mut Decoder, fields: &[FieldShape]) -> Result<Vec<(String, Val)>, String> {
    let mut out = vec![];
    for f in fields {
        if f.on_wire(d.version) {
            let v = dec(d, &f.shape)?;
            if f.in_memory() {
                out.push((f.name.clone(), v));
            }
        } else if let Some(a) = f.alt_at(d.version) {
            let v = dec(d, &a.shape)?;
            if f.in_memory() {
                out.push((f.name.clone(), apply_conv(&a.conv, v)?));
            }
        } else if f.in_memory() {
            out.push((f.name.clone(), f.default.clone()));
        }
    }
    Ok(out)
}

fn dec(d: &mut Decoder, s: &Shape) -> Result<Val, String> {
    Ok(match s {
        Shape::Unit => Val::Unit,
        Shape::Bool => match d.u(1)? {
            0 => Val::Bool(false),
            1 => Val::Bool(true),
            x => return Err(format!("model: invalid bool byte {}", x)),
        },
        Shape::U8 => Val::U(d.u(1)?),
        Shape::U16 => Val::U(d.u(2)?),
        Shape::U32 => Val::U(d.u(4)?),
        Shape::U64 | Shape::USize => Val::U(d.u(8)?),
        Shape::U128 => Val::U(d.u(16)?),
        Shape::I8 => Val::I(d.i(1)?),
        Shape::I16 => Val::I(d.i(2)?),
        Shape::I32 => Val::I(d.i(4)?),
        Shape::I64 | Shape::ISize | Shape::Timestamp => Val::I(d.i(8)?),
        Shape::I128 => Val::I(d.i(16)?),
        Shape::F32 => Val::F32(d.u(4)? as u32),
        Shape::F64 => Val::F64(d.u(8)? as u64),
        Shape::Char => {
            let c = d.u(4)? as u32;
            if char::from_u32(c).is_none() {
                return Err(format!("model: invalid char {:#x}", c));
            }
            Val::Char(c)
        }
        Shape::Str | Shape::StrCap(_) => {
            let l = d.len()?;
            if let Shape::StrCap(cap) = s {
                if l > *cap {
                    return Err(format!("model: string length {} exceeds capacity {}", l, cap));
                }
            }
            let b = d.take(l)?;
            Val::Str(String::from_utf8(b.to_vec()).map_err(|e| format!("model: invalid utf8: {}", e))?)
        }
        Shape::Seq(inner, kind) => {
            let l = d.len()?;
            if let SeqKind::Cap(cap) = kind {
                if l > *cap {
                    return Err(format!("model: {} elements exceed capacity {}", l, cap));
                }
            }
            let ms = min_size(inner, d.version);
            if ms > 0 && l > (d.data.len() - d.pos) / ms {
                return Err(format!("model: sequence of {} elements cannot fit in remaining input", l));
            }
            if ms == 0 && l > 1 << 24 {
                return Err("model: absurd number of zero-sized elements".into());
            }
            let mut items = Vec::with_capacity(l.min(1 << 16));
            for _ in 0..l {
                items.push(dec(d, inner)?);
            }
            if *kind == SeqKind::Unordered {
                items.sort();
            }
            Val::Seq(items)
        }
        Shape::Map(k, v, unordered) => {
            let l = d.len()?;
            let ms = min_size(k, d.version) + min_size(v, d.version);
            if ms > 0 && l > (d.data.len() - d.pos) / ms {
                return Err(format!("model: map of {} entries cannot fit in remaining input", l));
            }
            if ms == 0 && l > 1 << 24 {
                return Err("model: absurd number of zero-sized entries".into());
            }
            let mut items = Vec::with_capacity(l.min(1 << 16));
            for _ in 0..l {
                let a = dec(d, k)?;
                let b = dec(d, v)?;
                items.push((a, b));
            }
            if *unordered {
                items.sort();
            }
            Val::Map(items)
        }
        Shape::Opt(inner) => match d.u(1)? {
            0 => Val::None,
            1 => Val::Some(Box::new(dec(d, inner)?)),
            x => return Err(format!("model: invalid option tag {}", x)),
        },
        Shape::Res(ok, err) => match d.u(1)? {
            1 => Val::Ok(Box::new(dec(d, ok)?)),
            0 => Val::Err(Box::new(dec(d, err)?)),
            x => return Err(format!("model: invalid result tag {}", x)),
        },
        Shape::Array(n, inner) => {
            let mut items = Vec::with_capacity(*n);
            for _ in 0..*n {
                items.push(dec(d, inner)?);
            }
            Val::Seq(items)
        }
        Shape::Tuple(shapes) => {
            let mut items = vec![];
            for sh in shapes {
                items.push(dec(d, sh)?);
            }
            Val::Tuple(items)
        }
        Shape::Struct(_, fields) => Val::Rec(dec_fields(d, fields)?),
        Shape::Enum(name, w, variants) => {
            let idx = d.u(*w as usize)? as usize;
            let Some(var) = variants.get(idx) else {
                return Err(format!("model: enum {} has no variant index {}", name, idx));
            };
            Val::Var(var.name.clone(), dec_fields(d, &var.fields)?)
        }
        Shape::BitVec => {
            let numbits = d.len()?;
            let raw = d.u(8)? as u64;
            if raw & (1 << 63) != 0 {
                let nbytes = (raw & !(1 << 63)) as usize;
                if nbytes % 4 != 0 {
                    return Err("model: bitvec storage not a whole number of words".into());
                }
                if numbits > nbytes.saturating_mul(8) {
                    return Err(format!("model: bitvec claims {} bits in {} bytes", numbits, nbytes));
                }
                let b = d.take(nbytes)?;
                let mut bits = Vec::with_capacity(numbits);
                for i in 0..numbits {
                    bits.push(b[i / 8] & (1 << (i % 8)) != 0);
                }
                Val::Bits(bits)
            } else {
                let nbytes = raw as usize;
                let b = d.take(nbytes)?;
                let n = numbits.min(nbytes * 8);
                let mut bits = Vec::with_capacity(n);
                for i in 0..n {
                    bits.push(b[i / 8] & (0x80 >> (i % 8)) != 0);
                }
                Val::Bits(bits)
            }
        }
        Shape::Canary => {
            let m = d.u(4)?;
            if m != 0x47566843 {
                return Err(format!("model: bad canary {:#x}", m));
            }
            Val::Unit
        }
        Shape::Duration => {
            let x = d.u(16)?;
            if x / 1_000_000_000 > u64::MAX as u128 {
                return Err("model: duration out of range".into());
            }
            Val::U(x)
        }
        Shape::SysTime => {
            let x = d.u(16)?;
            let mag = x & ((1u128 << 127) - 1);
            if mag / 1_000_000_000 >= (1u128 << 62) {
                return Err("model: system time out of range".into());
            }
            Val::U(x)
        }
        Shape::IoError => {
            let k = d.u(2)?;
            let msg = dec(d, &Shape::Str)?;
            Val::Tuple(vec![Val::U(k), msg])
        }
    })
}

/// True when equal values always produce identical bytes (no unordered containers inside).
pub fn deterministic(s: &Shape) -> bool {
    match s {
        Shape::Seq(inner, kind) => *kind != SeqKind::Unordered && deterministic(inner),
        Shape::Map(k, v, unordered) => !*unordered && deterministic(k) && deterministic(v),
        Shape::Opt(i) | Shape::Array(_, i) => deterministic(i),
        Shape::Res(a, b) => deterministic(a) && deterministic(b),
        Shape::Tuple(shapes) => shapes.iter().all(deterministic),
        Shape::Struct(_, fields) => fields.iter().all(|f| deterministic(&f.shape) && f.alts.iter().all(|a| deterministic(&a.shape))),
        Shape::Enum(_, _, variants) => variants.iter().all(|v| v.fields.iter().all(|f| deterministic(&f.shape))),
        _ => true,
    }
}

/// Highest version number mentioned anywhere in the shape (0 if unversioned).
pub fn max_version(s: &Shape) -> u32 {
    fn fields_max(fields: &[FieldShape]) -> u32 {
        let mut m = 0;
        for f in fields {
            m = m.max(f.from);
            if f.to != u32::MAX {
                m = m.max(f.to + 1);
            }
            for a in &f.alts {
                m = m.max(a.to + 1);
                m = m.max(max_version(&a.shape));
            }
            m = m.max(max_version(&f.shape));
        }
        m
    }
    match s {
        Shape::Seq(i, _) | Shape::Opt(i) | Shape::Array(_, i) => max_version(i),
        Shape::Map(a, b, _) | Shape::Res(a, b) => max_version(a).max(max_version(b)),
        Shape::Tuple(shapes) => shapes.iter().map(max_version).max().unwrap_or(0),
        Shape::Struct(_, fields) => fields_max(fields),
        Shape::Enum(_, _, variants) => variants.iter().map(|v| v.from.max(fields_max(&v.fields))).max().unwrap_or(0),
        _ => 0,
    }
}

// ---------------------------------------------------------------------------
// value generation

pub struct GenCfg {
    /// rough bound on total number of nodes produced
    pub budget: usize,
    /// the value must be writable at this version (enum variants with from > version are avoided)
    pub version: u32,
}

const INTERESTING_LENS: [usize; 14] = [0, 1, 2, 3, 7, 8, 9, 15, 16, 17, 31, 32, 33, 64];

fn gen_len(rng: &mut Rng, budget: &mut usize, elem_fixed: Option<usize>) -> usize {
    if *budget == 0 {
        return 0;
    }
    let mut choices: Vec<usize> = INTERESTING_LENS.to_vec();
    if let Some(sz) = elem_fixed {
        if sz > 0 && sz < 32 {
            // savefile writes small elements in chunks of 64/size elements
            let k = (64 / sz).max(1);
            choices.extend_from_slice(&[k - 1, k, k + 1, 2 * k - 1, 2 * k, 2 * k + 1]);
        }
    }
    let mut l = *rng.pick(&choices);
    if rng.chance(1, 4) {
        l = rng.below(6);
    }
    l = l.min(*budget);
    *budget -= l.min(*budget);
    l
}

fn gen_string(rng: &mut Rng, max: usize) -> String {
    let target = *rng.pick(&[0usize, 1, 2, 5, 8, 16, 31, 63, 64, 65, 100]);
    let target = target.min(max);
    let mut s = String::new();
    let alphabet: [&str; 12] = ["a", "b", "Z", "0", " ", "_", "é", "ß", "€", "😀", "\u{0}", "\n"];
    while s.len() < target {
        let c = rng.pick(&alphabet);
        if s.len() + c.len() > target {
            if s.len() + 1 <= target {
                s.push('x');
            } else {
                break;
            }
        } else {
            s.push_str(c);
        }
    }
    s
}

fn gen_uint(rng: &mut Rng, bits: u32) -> u128 {
    let max: u128 = if bits == 128 { u128::MAX } else { (1u128 << bits) - 1 };
    match rng.below(8) {
        0 => 0,
        1 => 1,
        2 => max,
        3 => max - 1,
        4 => max / 2,
        5 => max / 2 + 1,
        6 => (rng.next_u128() & max) % 256,
        _ => rng.next_u128() & max,
    }
}

fn gen_int(rng: &mut Rng, bits: u32) -> i128 {
    let min: i128 = if bits == 128 { i128::MIN } else { -(1i128 << (bits - 1)) };
    let max: i128 = if bits == 128 { i128::MAX } else { (1i128 << (bits - 1)) - 1 };
    match rng.below(8) {
        0 => 0,
        1 => 1,
        2 => -1,
        3 => min,
        4 => max,
        5 => min + 1,
        6 => (rng.next_u64() % 200) as i128 - 100,
        _ => {
            let raw = rng.next_u128();
            if bits == 128 {
                raw as i128
            } else {
                let m = raw & ((1u128 << bits) - 1);
                (m as i128) + min
            }
        }
    }
}

pub fn gen_val(s: &Shape, rng: &mut Rng, cfg: &GenCfg) -> Val {
    let mut budget = cfg.budget;
    gen(s, rng, cfg.version, &mut budget, 0)
}

fn gen_fields(fields: &[FieldShape], rng: &mut Rng, version: u32, budget: &mut usize, depth: u32) -> Vec<(String, Val)> {
    let mut out = vec![];
    for f in fields {
        if f.in_memory() {
            out.push((f.name.clone(), gen(&f.shape, rng, version, budget, depth + 1)));
        }
    }
    out
}

fn gen(s: &Shape, rng: &mut Rng, version: u32, budget: &mut usize, depth: u32) -> Val {
    match s {
        Shape::Unit | Shape::Canary => Val::Unit,
        Shape::Bool => Val::Bool(rng.chance(1, 2)),
        Shape::U8 => Val::U(gen_uint(rng, 8)),
        Shape::U16 => Val::U(gen_uint(rng, 16)),
        Shape::U32 => Val::U(gen_uint(rng, 32)),
        Shape::U64 | Shape::USize => Val::U(gen_uint(rng, 64)),
        Shape::U128 => Val::U(gen_uint(rng, 128)),
        Shape::I8 => Val::I(gen_int(rng, 8)),
        Shape::I16 => Val::I(gen_int(rng, 16)),
        Shape::I32 => Val::I(gen_int(rng, 32)),
        Shape::I64 | Shape::ISize | Shape::Timestamp => Val::I(gen_int(rng, 64)),
        Shape::I128 => Val::I(gen_int(rng, 128)),
        Shape::F32 => Val::F32(*rng.pick(&[
            0u32, 0x8000_0000, 0x3f80_0000, 0xbf80_0000, 0x7f80_0000, 0xff80_0000, 0x7fc0_0000, 0x7fa0_1234, 0xffc0_0001, 1, 0x007f_ffff,
            0x7f7f_ffff, 0x4049_0fdb,
        ])),
        Shape::F64 => Val::F64(*rng.pick(&[
            0u64,
            0x8000_0000_0000_0000,
            0x3ff0_0000_0000_0000,
            0x7ff0_0000_0000_0000,
            0xfff0_0000_0000_0000,
            0x7ff8_0000_0000_0000,
            0x7ff4_0000_dead_beef,
            1,
            0x7fef_ffff_ffff_ffff,
            0x4009_21fb_5444_2d18,
        ])),
        Shape::Char => Val::Char(*rng.pick(&[0u32, 0x41, 0x7f, 0x80, 0x7ff, 0x800, 0xd7ff, 0xe000, 0xfffd, 0xffff, 0x10000, 0x1f600, 0x10ffff])),
        Shape::Str => Val::Str(gen_string(rng, 200)),
        Shape::StrCap(cap) => {
            let mut s = gen_string(rng, *cap);
            if rng.chance(1, 4) {
                // exactly full
                while s.len() < *cap {
                    s.push('q');
                }
            }
            Val::Str(s)
        }
        Shape::Seq(inner, kind) => {
            let mut l = gen_len(rng, budget, fixed_size(inner, version));
            if depth > 3 {
                l = l.min(2);
            }
            if let SeqKind::Cap(c) = kind {
                l = if rng.chance(1, 4) { *c } else { l.min(*c) };
            }
            Val::Seq((0..l).map(|_| gen(inner, rng, version, budget, depth + 1)).collect())
        }
        Shape::Map(k, v, _) => {
            let mut l = gen_len(rng, budget, None).min(20);
            if depth > 3 {
                l = l.min(2);
            }
            Val::Map((0..l).map(|_| (gen(k, rng, version, budget, depth + 1), gen(v, rng, version, budget, depth + 1))).collect())
        }
        Shape::Opt(inner) => {
            if rng.chance(1, 3) {
                Val::None
            } else {
                Val::Some(Box::new(gen(inner, rng, version, budget, depth + 1)))
            }
        }
        Shape::Res(a, b) => {
            if rng.chance(1, 2) {
                Val::Ok(Box::new(gen(a, rng, version, budget, depth + 1)))
            } else {
                Val::Err(Box::new(gen(b, rng, version, budget, depth + 1)))
            }
        }
        Shape::Array(n, inner) => Val::Seq((0..*n).map(|_| gen(inner, rng, version, budget, depth + 1)).collect()),
        Shape::Tuple(shapes) => Val::Tuple(shapes.iter().map(|x| gen(x, rng, version, budget, depth + 1)).collect()),
        Shape::Struct(_, fields) => Val::Rec(gen_fields(fields, rng, version, budget, depth)),
        Shape::Enum(_, _, variants) => {
            let ok: Vec<&VariantShape> = variants.iter().filter(|v| v.from <= version).collect();
            let var = if ok.is_empty() { &variants[0] } else { *rng.pick(&ok) };
            Val::Var(var.name.clone(), gen_fields(&var.fields, rng, version, budget, depth))
        }
        Shape::BitVec => {
            let l = *rng.pick(&[0usize, 1, 7, 8, 31, 32, 33, 63, 64, 65, 100]);
            Val::Bits((0..l).map(|_| rng.chance(1, 2)).collect())
        }
        Shape::Duration => Val::U(match rng.below(6) {
            0 => 0,
            1 => 1,
            2 => 999_999_999,
            3 => 1_000_000_000,
            4 => (u64::MAX as u128) * 1_000_000_000 + 999_999_999,
            _ => rng.next_u64() as u128 * (rng.next_u64() % 1000) as u128,
        }),
        Shape::SysTime => {
            let mag: u128 = match rng.below(6) {
                0 => 0,
                1 => 1,
                2 => 1_700_000_000_123_456_789,
                3 => u64::MAX as u128,
                4 => u64::MAX as u128 + 1,
                _ => (rng.next_u64() >> 3) as u128 * 1_000_000_007,
            };
            if mag != 0 && rng.chance(1, 3) {
                Val::U(mag | (1u128 << 127))
            } else {
                Val::U(mag)
            }
        }
        Shape::IoError => Val::Tuple(vec![Val::U(*rng.pick(&IO_KINDS) as u128), Val::Str(gen_string(rng, 40))]),
    }
}

// ---------------------------------------------------------------------------
// descriptions

pub fn val_brief(v: &Val, max: usize) -> String {
    let mut s = format!("{:?}", v);
    if s.len() > max {
        let mut cut = max;
        while !s.is_char_boundary(cut) {
            cut -= 1;
        }
        s.truncate(cut);
        s.push_str("…");
    }
    s
}

/// A coarse class of a value, used to count distinct non-trivial cases.
pub fn val_class(v: &Val) -> String {
    fn go(v: &Val, out: &mut String, depth: u32) {
        if depth > 3 {
            out.push('~');
            return;
        }
        match v {
            Val::Unit => out.push('u'),
            Val::Bool(b) => out.push(if *b { 'T' } else { 'F' }),
            Val::U(x) => out.push(if *x == 0 { '0' } else if *x < 256 { 's' } else { 'L' }),
            Val::I(x) => out.push(if *x == 0 { '0' } else if *x < 0 { '-' } else { '+' }),
            Val::F32(_) | Val::F64(_) => out.push('f'),
            Val::Char(c) => out.push(if *c < 128 { 'c' } else { 'C' }),
            Val::Str(s) => {
                out.push('"');
                out.push_str(&len_class(s.len()));
            }
            Val::Seq(items) => {
                out.push('[');
                out.push_str(&len_class(items.len()));
                if let Some(f) = items.first() {
                    go(f, out, depth + 1);
                }
                out.push(']');
            }
            Val::Map(items) => {
                out.push('{');
                out.push_str(&len_class(items.len()));
                out.push('}');
            }
            Val::None => out.push('N'),
            Val::Some(x) => {
                out.push('S');
                go(x, out, depth + 1);
            }
            Val::Ok(x) => {
                out.push('K');
                go(x, out, depth + 1);
            }
            Val::Err(x) => {
                out.push('E');
                go(x, out, depth + 1);
            }
            Val::Tuple(items) => {
                out.push('(');
                for i in items {
                    go(i, out, depth + 1);
                }
                out.push(')');
            }
            Val::Rec(fields) => {
                out.push('<');
                for (_, i) in fields {
                    go(i, out, depth + 1);
                }
                out.push('>');
            }
            Val::Var(n, fields) => {
                out.push('|');
                out.push_str(n);
                for (_, i) in fields {
                    go(i, out, depth + 1);
                }
                out.push('|');
            }
            Val::Bits(b) => {
                out.push('b');
                out.push_str(&len_class(b.len()));
            }
        }
    }
    let mut s = String::new();
    go(v, &mut s, 0);
    s
}

fn len_class(l: usize) -> String {
    match l {
        0 => "0".into(),
        1 => "1".into(),
        2..=7 => "few".into(),
        8..=63 => "mid".into(),
        64 => "64".into(),
        _ => "big".into(),
    }
}
