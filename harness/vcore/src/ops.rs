//! Type-erased operations on a concrete Rust type under test: everything the
//! checks need from the real savefile code for one type, monomorphised once.

use crate::model::{Shape, Val};
use crate::stdimpls::Model;
use crate::util::catch;
use savefile::{Deserialize, Deserializer, Introspect, Packed, SavefileError, Schema, Serialize, Serializer, WithSchema};
use std::io::{Read, Write};
use std::marker::PhantomData;

#[derive(Clone, Copy, Debug, PartialEq, Eq, Hash)]
pub enum Container {
    Plain,
    NoSchema,
    Compressed,
    /// CryptoWriter / CryptoReader over an in-memory buffer, plain `save` inside
    CryptoMem,
    /// save_encrypted_file / load_encrypted_file on disk
    EncryptedFile,
}
pub const ALL_CONTAINERS: [Container; 5] =
    [Container::Plain, Container::NoSchema, Container::Compressed, Container::CryptoMem, Container::EncryptedFile];
pub const MEM_CONTAINERS: [Container; 4] = [Container::Plain, Container::NoSchema, Container::Compressed, Container::CryptoMem];

impl Container {
    pub fn name(&self) -> &'static str {
        match self {
            Container::Plain => "plain",
            Container::NoSchema => "noschema",
            Container::Compressed => "compressed",
            Container::CryptoMem => "cryptomem",
            Container::EncryptedFile => "encfile",
        }
    }
}

pub const KEY: [u8; 32] = [
    7, 1, 2, 3, 4, 5, 6, 7, 8, 9, 10, 11, 12, 13, 14, 15, 16, 17, 18, 19, 20, 21, 22, 23, 24, 25, 26, 27, 28, 29, 30, 31,
];
pub const PASSWORD: &str = "correct horse battery staple";

#[derive(Clone, Debug, PartialEq)]
pub enum Outcome<T> {
    Ok(T),
    /// (SavefileError variant name, full debug text)
    Err(String, String),
    Panic(String),
}

impl<T> Outcome<T> {
    pub fn is_ok(&self) -> bool {
        matches!(self, Outcome::Ok(_))
    }
    pub fn is_err(&self) -> bool {
        matches!(self, Outcome::Err(..))
    }
    pub fn is_panic(&self) -> bool {
        matches!(self, Outcome::Panic(_))
    }
    pub fn brief(&self) -> String {
        match self {
            Outcome::Ok(_) => "Ok".to_string(),
            Outcome::Err(k, m) => {
                let mut m = m.clone();
                if m.len() > 160 {
                    let mut c = 160;
                    while !m.is_char_boundary(c) {
                        c -= 1;
                    }
                    m.truncate(c);
                }
                format!("Err({}: {})", k, m)
            }
            Outcome::Panic(m) => format!("Panic({})", m),
        }
    }
    pub fn map<U>(self, f: impl FnOnce(T) -> U) -> Outcome<U> {
        match self {
            Outcome::Ok(x) => Outcome::Ok(f(x)),
            Outcome::Err(a, b) => Outcome::Err(a, b),
            Outcome::Panic(m) => Outcome::Panic(m),
        }
    }
}

pub fn err_kind(e: &SavefileError) -> String {
    let d = format!("{:?}", e);
    d.split(|c: char| !c.is_alphanumeric()).next().unwrap_or("").to_string()
}

pub fn outcome<T>(f: impl FnOnce() -> Result<T, SavefileError>) -> Outcome<T> {
    match catch(f) {
        Ok(Ok(v)) => Outcome::Ok(v),
        Ok(Err(e)) => Outcome::Err(err_kind(&e), format!("{:?}", e)),
        Err(p) => Outcome::Panic(p),
    }
}

pub struct DynW<'a>(pub &'a mut dyn Write);
impl Write for DynW<'_> {
    fn write(&mut self, buf: &[u8]) -> std::io::Result<usize> {
        self.0.write(buf)
    }
    fn flush(&mut self) -> std::io::Result<()> {
        self.0.flush()
    }
}
pub struct DynR<'a>(pub &'a mut dyn Read);
impl Read for DynR<'_> {
    fn read(&mut self, buf: &mut [u8]) -> std::io::Result<usize> {
        self.0.read(buf)
    }
}

/// Reader over a byte slice that counts how many bytes were handed out.
pub struct CountingReader<'a> {
    pub data: &'a [u8],
    pub pos: usize,
}
impl Read for CountingReader<'_> {
    fn read(&mut self, buf: &mut [u8]) -> std::io::Result<usize> {
        let n = buf.len().min(self.data.len() - self.pos);
        buf[..n].copy_from_slice(&self.data[self.pos..self.pos + n]);
        self.pos += n;
        Ok(n)
    }
}

static FILE_COUNTER: std::sync::atomic::AtomicU64 = std::sync::atomic::AtomicU64::new(0);
pub fn temp_path(tag: &str) -> std::path::PathBuf {
    let n = FILE_COUNTER.fetch_add(1, std::sync::atomic::Ordering::SeqCst);
    let dir = std::env::var("VH_TMP").unwrap_or_else(|_| "/tmp".to_string());
    std::path::PathBuf::from(dir).join(format!("vh_{}_{}_{}.bin", std::process::id(), tag, n))
}

pub trait TypeOps: Send + Sync {
    fn name(&self) -> String;
    fn shape(&self) -> Shape;
    /// memory-normal form: to_val(from_val(g))
    fn normalize(&self, g: &Val) -> Val;
    fn save_to(&self, v: &Val, ver: u32, c: Container, w: &mut dyn Write) -> Outcome<()>;
    fn load_from(&self, r: &mut dyn Read, ver: u32, c: Container) -> Outcome<Val>;
    fn save(&self, v: &Val, ver: u32, c: Container) -> Outcome<Vec<u8>>;
    /// returns (value, bytes consumed from the input; usize::MAX = not measurable for this container)
    fn load(&self, bytes: &[u8], ver: u32, c: Container) -> Outcome<(Val, usize)>;
    fn bare_ser(&self, v: &Val, ver: u32) -> Outcome<Vec<u8>>;
    fn bare_de(&self, bytes: &[u8], ver: u32) -> Outcome<(Val, usize)>;
    /// `&[T]` serialisation of the given element values (no deserialisation exists for slices)
    fn slice_ser(&self, elems: &[Val], ver: u32) -> Outcome<Vec<u8>>;
    fn packed(&self, ver: u32) -> bool;
    fn size_of(&self) -> usize;
    fn align_of(&self) -> usize;
    /// Raw memory image of the value. Caller must have established that the type has no padding.
    fn mem_image(&self, v: &Val) -> Vec<u8>;
    fn schema(&self, ver: u32) -> Schema;
    /// containers of this type that have a bulk path: (label, ops)
    fn bulk_wrappers(&self) -> Vec<(String, Box<dyn BulkOps>)>;
    /// load_encrypted_file with an explicit password
    fn load_enc_pw(&self, bytes: &[u8], ver: u32, password: &str) -> Outcome<Val>;
    /// CryptoReader + load with an explicit key
    fn load_crypto_key(&self, bytes: &[u8], ver: u32, key: [u8; 32]) -> Outcome<Val>;
    /// like `load` but inspects the returned value cautiously (see `Inspect`)
    fn load_inspect(&self, bytes: &[u8], ver: u32, c: Container) -> Outcome<Inspect>;
    /// bare-deserialize and report (element count claimed by the result, validity of bit patterns)
    fn bare_de_inspect(&self, bytes: &[u8], ver: u32) -> Outcome<Inspect>;
}

/// What a loaded value looks like, measured without trusting it more than necessary.
#[derive(Clone, Debug, PartialEq)]
pub struct Inspect {
    /// to_val of the loaded value (only computed when `safe_to_traverse`)
    pub val: Option<Val>,
    /// number of non-zero-sized leaf elements claimed by all collections in the value
    pub claimed_elems: u128,
    pub consumed: usize,
    /// false if a bool / char / enum tag inside the value holds an invalid bit pattern
    pub valid_bits: bool,
    /// the value holds more than WALK_CAP elements that have no wire representation; not walked
    pub walk_skipped: bool,
}

pub struct Ops<T>(pub PhantomData<fn() -> T>);

impl<T> Ops<T> {
    pub fn new() -> Self {
        Ops(PhantomData)
    }
}

/// Look at a value returned by a deserializer without trusting it: lengths first, then bit
/// patterns, and only then a full walk. Values that fail a stage are leaked, not dropped.
pub fn inspect_value<T: Model>(x: T, limit: u128, consumed: usize) -> Inspect {
    crate::stdimpls::TOTAL_ELEMS.with(|c| c.set(0));
    let claimed = x.claim(limit);
    if claimed > limit {
        std::mem::forget(x);
        return Inspect { val: None, claimed_elems: claimed, consumed, valid_bits: true, walk_skipped: false };
    }
    if crate::stdimpls::TOTAL_ELEMS.with(|c| c.get()) > crate::stdimpls::WALK_CAP {
        // legitimately huge (elements without wire representation, e.g. Vec<()>): do not walk it
        std::mem::forget(x);
        return Inspect { val: None, claimed_elems: claimed, consumed, valid_bits: true, walk_skipped: true };
    }
    if !x.valid_bits() {
        std::mem::forget(x);
        return Inspect { val: None, claimed_elems: claimed, consumed, valid_bits: false, walk_skipped: false };
    }
    let val = catch(|| x.to_val()).ok();
    match catch(move || drop(x)) {
        Ok(()) => Inspect { val, claimed_elems: claimed, consumed, valid_bits: true, walk_skipped: false },
        Err(_) => Inspect { val: None, claimed_elems: claimed, consumed, valid_bits: true, walk_skipped: false },
    }
}

pub fn bare_ser_impl<T: Serialize>(x: &T, ver: u32) -> Outcome<Vec<u8>> {
    let mut out: Vec<u8> = vec![];
    let r = {
        let mut dw = DynW(&mut out);
        outcome(|| Serializer::bare_serialize(&mut dw, ver, x))
    };
    r.map(|_| out)
}

pub fn bare_de_impl<T: Deserialize>(bytes: &[u8], ver: u32) -> (Outcome<T>, usize) {
    let mut r = CountingReader { data: bytes, pos: 0 };
    let o = {
        let mut dr = DynR(&mut r);
        outcome(|| Deserializer::bare_deserialize::<T>(&mut dr, ver))
    };
    (o, r.pos)
}

fn save_impl<T: Serialize + WithSchema>(x: &T, ver: u32, c: Container, w: &mut dyn Write) -> Result<(), SavefileError> {
    let mut dw = DynW(w);
    match c {
        Container::Plain => savefile::save(&mut dw, ver, x),
        Container::NoSchema => savefile::save_noschema(&mut dw, ver, x),
        Container::Compressed => savefile::save_compressed(&mut dw, ver, x),
        Container::CryptoMem => {
            let mut cw = savefile::CryptoWriter::new(&mut dw, KEY)?;
            savefile::save(&mut cw, ver, x)?;
            cw.flush_final()
        }
        Container::EncryptedFile => {
            let p = temp_path("enc");
            let r = savefile::save_encrypted_file(&p, ver, x, PASSWORD);
            let data = std::fs::read(&p);
            let _ = std::fs::remove_file(&p);
            r?;
            dw.write_all(&data?)?;
            Ok(())
        }
    }
}

fn load_impl<T: Deserialize + WithSchema>(r: &mut dyn Read, ver: u32, c: Container) -> Result<T, SavefileError> {
    let mut dr = DynR(r);
    match c {
        Container::Plain | Container::Compressed => savefile::load::<T>(&mut dr, ver),
        Container::NoSchema => savefile::load_noschema::<T>(&mut dr, ver),
        Container::CryptoMem => {
            let mut cr = savefile::CryptoReader::new(&mut dr, KEY)?;
            savefile::load::<T>(&mut cr, ver)
        }
        Container::EncryptedFile => {
            let p = temp_path("dec");
            let mut data = vec![];
            dr.read_to_end(&mut data)?;
            std::fs::write(&p, &data)?;
            let r = savefile::load_encrypted_file::<T, _>(&p, ver, PASSWORD);
            let _ = std::fs::remove_file(&p);
            r
        }
    }
}

macro_rules! impl_typeops {
    ($name:ident, $bw:expr) => {
impl<T> TypeOps for $name<T>
where
    T: Model + Serialize + Deserialize + WithSchema + Packed,
{
    fn name(&self) -> String {
        clean_type_name(&T::type_name())
    }
    fn shape(&self) -> Shape {
        T::shape()
    }
    fn normalize(&self, g: &Val) -> Val {
        T::from_val(g).to_val()
    }
    fn save_to(&self, v: &Val, ver: u32, c: Container, w: &mut dyn Write) -> Outcome<()> {
        let x = T::from_val(v);
        outcome(|| save_impl(&x, ver, c, w))
    }
    fn load_from(&self, r: &mut dyn Read, ver: u32, c: Container) -> Outcome<Val> {
        outcome(|| load_impl::<T>(r, ver, c)).map(|x| x.to_val())
    }
    fn save(&self, v: &Val, ver: u32, c: Container) -> Outcome<Vec<u8>> {
        let mut out = vec![];
        self.save_to(v, ver, c, &mut out).map(|_| out)
    }
    fn load(&self, bytes: &[u8], ver: u32, c: Container) -> Outcome<(Val, usize)> {
        let mut r = CountingReader { data: bytes, pos: 0 };
        let o = outcome(|| load_impl::<T>(&mut r, ver, c));
        let consumed = r.pos;
        o.map(|x| (x.to_val(), consumed))
    }
    fn bare_ser(&self, v: &Val, ver: u32) -> Outcome<Vec<u8>> {
        let x = T::from_val(v);
        bare_ser_impl(&x, ver)
    }
    fn bare_de(&self, bytes: &[u8], ver: u32) -> Outcome<(Val, usize)> {
        let (o, consumed) = bare_de_impl::<T>(bytes, ver);
        o.map(|x| (x.to_val(), consumed))
    }
    fn slice_ser(&self, elems: &[Val], ver: u32) -> Outcome<Vec<u8>> {
        let xs: Vec<T> = elems.iter().map(T::from_val).collect();
        let sl: &[T] = &xs;
        bare_ser_impl(&sl, ver)
    }
    fn packed(&self, ver: u32) -> bool {
        unsafe { T::repr_c_optimization_safe(ver).is_yes() }
    }
    fn size_of(&self) -> usize {
        std::mem::size_of::<T>()
    }
    fn align_of(&self) -> usize {
        std::mem::align_of::<T>()
    }
    fn mem_image(&self, v: &Val) -> Vec<u8> {
        let x = T::from_val(v);
        let p = &x as *const T as *const u8;
        // Caller guarantees size_of::<T>() equals the sum of the field sizes, i.e. no padding bytes.
        unsafe { std::slice::from_raw_parts(p, std::mem::size_of::<T>()) }.to_vec()
    }
    fn schema(&self, ver: u32) -> Schema {
        savefile::get_schema::<T>(ver)
    }
    fn bulk_wrappers(&self) -> Vec<(String, Box<dyn BulkOps>)> {
        mk_wrappers::<T>()
    }
    fn load_enc_pw(&self, bytes: &[u8], ver: u32, password: &str) -> Outcome<Val> {
        let p = temp_path("pw");
        if let Err(e) = std::fs::write(&p, bytes) {
            return Outcome::Err("HarnessIo".into(), e.to_string());
        }
        let o = outcome(|| savefile::load_encrypted_file::<T, _>(&p, ver, password));
        let _ = std::fs::remove_file(&p);
        o.map(|x| x.to_val())
    }
    fn load_crypto_key(&self, bytes: &[u8], ver: u32, key: [u8; 32]) -> Outcome<Val> {
        let mut r = CountingReader { data: bytes, pos: 0 };
        outcome(|| {
            let mut dr = DynR(&mut r);
            let mut cr = savefile::CryptoReader::new(&mut dr, key)?;
            savefile::load::<T>(&mut cr, ver)
        })
        .map(|x| x.to_val())
    }
    fn load_inspect(&self, bytes: &[u8], ver: u32, c: Container) -> Outcome<Inspect> {
        let mut r = CountingReader { data: bytes, pos: 0 };
        let o = outcome(|| load_impl::<T>(&mut r, ver, c));
        let consumed = r.pos;
        let limit = bytes.len() as u128;
        o.map(|x| inspect_value(x, limit, consumed))
    }
    fn bare_de_inspect(&self, bytes: &[u8], ver: u32) -> Outcome<Inspect> {
        let (o, consumed) = bare_de_impl::<T>(bytes, ver);
        let limit = bytes.len() as u128;
        o.map(|x| inspect_value(x, limit, consumed))
    }
}

    };
}
/// Slim operations on a container-of-T type (only what C04 needs), kept small on purpose:
/// every method here is instantiated for five wrappers of every type under test.
pub trait BulkOps: Send + Sync {
    fn shape(&self) -> Shape;
    /// build the container from element values
    fn bare_ser(&self, elems: &[Val], ver: u32) -> Outcome<Vec<u8>>;
    /// deserialize the container and return its element values
    fn bare_de(&self, bytes: &[u8], ver: u32) -> Outcome<(Vec<Val>, usize)>;
    /// fixed number of elements this container must hold (arrays), if any
    fn fixed_len(&self) -> Option<usize>;
    fn max_len(&self) -> Option<usize>;
    fn has_len_prefix(&self) -> bool;
}
pub struct LeafOps<C>(pub PhantomData<fn() -> C>, pub Option<usize>, pub Option<usize>, pub bool);
impl<C> BulkOps for LeafOps<C>
where
    C: Model + Serialize + Deserialize,
{
    fn shape(&self) -> Shape {
        C::shape()
    }
    fn bare_ser(&self, elems: &[Val], ver: u32) -> Outcome<Vec<u8>> {
        let c = C::from_val(&Val::Seq(elems.to_vec()));
        bare_ser_impl(&c, ver)
    }
    fn bare_de(&self, bytes: &[u8], ver: u32) -> Outcome<(Vec<Val>, usize)> {
        let (o, consumed) = bare_de_impl::<C>(bytes, ver);
        match o {
            Outcome::Ok(x) => {
                if !x.valid_bits() {
                    // e.g. an enum tag that is not a declared discriminant: do not act on it
                    std::mem::forget(x);
                    return Outcome::Err("HarnessInvalidBitPattern".into(), "bulk read produced an invalid bool / char / enum bit pattern".into());
                }
                match x.to_val() {
                    Val::Seq(items) => Outcome::Ok((items, consumed)),
                    other => Outcome::Ok((vec![other], consumed)),
                }
            }
            Outcome::Err(a, b) => Outcome::Err(a, b),
            Outcome::Panic(m) => Outcome::Panic(m),
        }
    }
    fn fixed_len(&self) -> Option<usize> {
        self.1
    }
    fn max_len(&self) -> Option<usize> {
        self.2
    }
    fn has_len_prefix(&self) -> bool {
        self.3
    }
}
fn mk_wrappers<T>() -> Vec<(String, Box<dyn BulkOps>)>
where
    T: Model + Serialize + Deserialize + WithSchema + Packed,
{
    vec![
        ("Vec<T>".to_string(), Box::new(LeafOps::<Vec<T>>(PhantomData, None, None, true)) as Box<dyn BulkOps>),
        ("Box<[T]>".to_string(), Box::new(LeafOps::<Box<[T]>>(PhantomData, None, None, true))),
        ("Arc<[T]>".to_string(), Box::new(LeafOps::<std::sync::Arc<[T]>>(PhantomData, None, None, true))),
        ("[T;3]".to_string(), Box::new(LeafOps::<[T; 3]>(PhantomData, Some(3), None, false))),
        ("ArrayVec<T,5>".to_string(), Box::new(LeafOps::<arrayvec::ArrayVec<T, 5>>(PhantomData, None, Some(5), true))),
    ]
}
impl_typeops!(Ops, ());
/// "alloc::vec::Vec<vh::zoo::t5::T5>" -> "Vec<t5::T5>": drop module paths, but keep the
/// generated module name of zoo types (family versions share a type name).
pub fn clean_type_name(full: &str) -> String {
    let mut out = String::new();
    let mut token = String::new();
    let flush = |token: &mut String, out: &mut String| {
        if token.is_empty() {
            return;
        }
        let segs: Vec<&str> = token.split("::").collect();
        let zoo = segs.iter().any(|s| *s == "zoo" || *s == "zoo_extra");
        let extra = segs.iter().any(|s| *s == "zoo_extra");
        if zoo && segs.len() >= 2 {
            if extra {
                out.push_str("x:");
            }
            out.push_str(segs[segs.len() - 2]);
            out.push_str("::");
        }
        out.push_str(segs[segs.len() - 1]);
        token.clear();
    };
    for ch in full.chars() {
        if ch.is_alphanumeric() || ch == '_' || ch == ':' {
            token.push(ch);
        } else {
            flush(&mut token, &mut out);
            out.push(ch);
        }
    }
    flush(&mut token, &mut out);
    out
}

pub fn count_elems(v: &Val) -> u128 {
    match v {
        Val::Seq(items) => items.len() as u128 + items.iter().map(count_elems).sum::<u128>(),
        Val::Map(items) => items.len() as u128 + items.iter().map(|(a, b)| count_elems(a) + count_elems(b)).sum::<u128>(),
        Val::Some(x) | Val::Ok(x) | Val::Err(x) => count_elems(x),
        Val::Tuple(items) => items.iter().map(count_elems).sum(),
        Val::Rec(f) | Val::Var(_, f) => f.iter().map(|(_, x)| count_elems(x)).sum(),
        Val::Str(s) => s.len() as u128,
        Val::Bits(b) => (b.len() as u128) / 8,
        _ => 0,
    }
}

pub trait IntroOps: Send + Sync {
    /// run `f` on the value as `&dyn Introspect`
    fn with_intro(&self, v: &Val, f: &mut dyn FnMut(&dyn Introspect));
}
pub struct IOps<T>(pub PhantomData<fn() -> T>);
impl<T: Model + Introspect> IntroOps for IOps<T> {
    fn with_intro(&self, v: &Val, f: &mut dyn FnMut(&dyn Introspect)) {
        let x = T::from_val(v);
        f(&x);
    }
}

pub struct TypeEntry {
    pub ops: Box<dyn TypeOps>,
    pub intro: Option<Box<dyn IntroOps>>,
    /// current data version of the definition (highest version mentioned)
    pub version: u32,
    /// Rust source of the definition (generated types) or "" for library types
    pub def: &'static str,
    /// feature tags for the evidence histogram
    pub tags: &'static [&'static str],
}

impl TypeEntry {
    pub fn name(&self) -> String {
        self.ops.name()
    }
}

#[macro_export]
macro_rules! entry {
    ($t:ty) => {
        $crate::ops::TypeEntry {
            ops: Box::new($crate::ops::Ops::<$t>::new()),
            intro: Some(Box::new($crate::ops::IOps::<$t>(std::marker::PhantomData))),
            version: $crate::model::max_version(&<$t as $crate::stdimpls::Model>::shape()),
            def: "",
            tags: &[],
        }
    };
    ($t:ty, nointro) => {
        $crate::ops::TypeEntry {
            ops: Box::new($crate::ops::Ops::<$t>::new()),
            intro: None,
            version: $crate::model::max_version(&<$t as $crate::stdimpls::Model>::shape()),
            def: "",
            tags: &[],
        }
    };
    ($t:ty, $def:expr, $tags:expr, $ver:expr) => {
        $crate::ops::TypeEntry {
            ops: Box::new($crate::ops::Ops::<$t>::new()),
            intro: Some(Box::new($crate::ops::IOps::<$t>(std::marker::PhantomData))),
            version: $ver,
            def: $def,
            tags: $tags,
        }
    };
}

/// An evolution family: the same logical type at successive data versions.
pub struct Family {
    pub name: &'static str,
    /// versions[i] is the definition whose current version is i
    pub versions: Vec<TypeEntry>,
    /// human-readable edit list
    pub edits: &'static str,
    /// true when every removal uses AbiRemoved and no field changes type (so older versions can be written)
    pub abi_writable: bool,
}
